#!/usr/bin/env python3
"""Regenerates MANIFEST.json from the table below (kept in one place so it stays valid)."""
import json
import os
import subprocess

HERE = os.path.dirname(os.path.abspath(__file__))

CHECKS = {
    # id: (technique, level text, level note, design ref)
}


def add(pid, technique, text, note, ref=None, category="exploration"):
    CHECKS[pid] = dict(technique=technique, text=text, note=note, ref=ref or f"DESIGN.md section 4, {pid}",
                       category=category)


add("C01", "replicate ensembles of real Sampler.run() in separate processes vs closed-form posterior functionals; fixed two-stage decision rule (flag |b| > 4.5 se + 4 s/N, confirm on 2R fresh seeds); mechanism classifier for known findings",
    "Sampling-distribution claim decided on R=32 (quick) / 64 (thorough) independent runs per cell over 25 / 120 cells (targets: interior correlated, bimodal, hard face, periodic, reflective, d=4, 1000x-narrow posterior, volume-variation schedule) x ~10 estimands x 3 estimators from the same runs; resolves biases of ~3% of a posterior sd at N=128; thorough judges the largest N.",
    "Trusted: closed-form targets; Rule S thresholds fixed in DESIGN 2.6; false-alarm probability per cell <= (7e-6)^2. Known findings printed, not failed: tpcn+periodic, tpcn+reflective, rwm+reflective+correlated, trimmed-estimator, clustering-state-dependent-kernel.")
add("C02", "replicate ensembles vs closed-form evidence (two-stage rule) + deterministic RNG-state-hash monitor at every pipeline step boundary of every run (shared or repeated state = shared innovations) + batch-means F test",
    "Evidence bias judged on R=48/96 runs per cell (se ~0.013 nat at N=128) over 19 / 90 cells (one of them N=4096 with 25 stored iterations, 16/32 runs; two in dynamic mode with a variation of 0.04 / 0.02); independence decided deterministically: 1e4-1e5 RNG states hashed at step boundaries, any state shared by two seeds or recurring within a run is a witness.",
    "Trusted: numpy global stream is the only randomness source (private generators are caught by C09/C13 instead); closed-form logZ.")
add("C03", "injected randomness: RNG interposer serves chosen gamma/normal/uniform draws to three consecutive sweeps of the real TPCNRunner/RWMRunner object, outcome compared with the tpCN/RWM specification (exact fold, scipy multivariate_t ratio, accept probes at alpha(1+-1e-6), one draw per proposal, out-of-cube rejection, rejection of proposals into a region of exactly zero likelihood); distributional invariance on exact pi_beta draws (paired z, confirm on fresh batch); pipeline cells with the library's own clusterer",
    "2000/20000 cases x 3 sweeps decide proposal map, gamma parameters, acceptance factor, accept rule and state carried between sweeps exactly; 22/200 invariance cells x 2e4/1e5 walkers decide pi_beta-invariance per kernel x boundary kind x covariance structure at z>5 twice.",
    "Trusted: scipy.stats.multivariate_t/truncnorm/vonmises; invariance shown for the exactly samplable families only. Known findings: tpcn+periodic, tpcn+reflective, rwm+reflective+correlated, state-dependent-assignment.")
add("C04", "runtime monitor: real StateManager.compute_logw_and_logz vs independent long-double reference model on generated and recorded histories (incl. 30-70 iterations, 2e4-sample batches, one history above 2^24 mixture elements), repeated requests on one manager, a manager whose history is replaced after it answered requests, values handed over as integers / 0-d arrays / lists, metamorphic relations, FP-exception trap",
    "Held on every generated history (3e3 quick / 1e5 thorough) and on every prefix of histories recorded from real runs; an oracle decides each case, so any deviation of the formula, normalisation, order-dependence, shift-equivariance, request-order dependence or finiteness on an explored history is reported with the history as witness.",
    "Trusted: numpy long double arithmetic of the reference; tolerance 1e-9*(1+scale).")
add("C05", "invariant at a hook on the real Reweighter.run: pool snapshot -> long-double reference ESS / logZ / weights at the recorded beta; ESS limit read at the hooked _find_beta_upper_limit and validated independently; single-step pools (incl. log-likelihood ranges up to 1e9), multi-iteration sequences through one Reweighter instance, histories whose last 20-120 iterations sit at one intermediate temperature, monitored real runs with every step replayed on a fresh Reweighter (differential) and with the ESS limit injected once inside (1-2e-4, 1)",
    "2000/50000 synthetic pools, 600/20000 growing-history sequences (directed: a narrow spike found after the pool was admissible up to beta=1) and every reweighting step of 24/400 monitored runs: monotone, bounded, ESS floor (rel 1e-9), volume mode within the ESS limit, recorded beta/logZ/ESS/weights self-consistent.",
    "Trusted: long-double reference; the ESS limit reported by the code is validated (its reference ESS >= target), not recomputed as a global supremum.")
add("C06", "runtime monitor with injected randomness: systematic comb driven at every breakpoint +-1ulp / cell midpoint of its u0-partition via an np.random interposer, validated by an independent comb model; seeded calls must be one comb (feasible-offset interval); pooled multinomial counts and the arguments handed to np.random.choice; Resampler.run at temperatures from 5e-324 to 1 and posterior(resample=True) (with and without trimming)",
    "For each generated (n,w) the whole u0 interval is covered through its finite partition, so length/range/monotonicity/floor-ceil copies/zero-weight clauses are decided for every offset of that (n,w) and unbiasedness by exact integration over cells; (n,w) are sampled (400 quick / 1e4 thorough, incl. vectors of 3e3-1.2e4 weights). Multinomial clause statistical (two-stage z>5.5).",
    "Trusted: long-double cumulative sums of the reference comb; np.random.choice semantics for the multinomial scheme.")
add("C07", "invariant at hooks: after Resampler.run / Mutator.run / every commit / sample() / posterior(), every particle row is looked up in the instrumented likelihood's evaluation log (unique ids in one-, two- and three-field blobs) and x re-derived from u; half of the lattice through the public run() with the progress display on; blobs that are the likelihood's own argument, 64-bit integers or strings; also on sampler objects that get another history loaded after they have run, with an identity prior transform that returns its argument, and with the likelihood evaluated in worker processes",
    "Every particle row at every step boundary of 36 (quick) / ~370 (thorough) monitored runs over a covering array of the option lattice plus dedicated sparse-support x blobs runs (3e4-1e6 rows) is identified with the evaluation it came from; a split record cannot match the log.",
    "Trusted: purity of the harness' prior transform and likelihood; x bytes / blob ids as record identity. Known finding: all-zero-likelihood-batch.")
add("C08", "fault enumeration: kill points before every I/O call of a checkpoint save and at byte offsets inside OS-level writes, with a real BufferedWriter over the killing raw layer and the buffer size as part of the schedule (in-process engine; strace syscall injection in thorough); digests of restored state vs digest hooked at save time; resumed runs monitored (same / larger target, final checkpoint, second generation); checkpoints written by a re-used sampler object after its history was replaced",
    "Every checkpoint of save_every=1 runs in 7/32 configurations is restored and compared bitwise; resumes checked for prefix identity, numbering, cross-process call counting, schedule and postconditions; every I/O call boundary of a save plus byte offsets is a crash point in first-save and overwrite scenarios under 2-3 buffer sizes.",
    "Trusted: process death only (no power-loss semantics); sha256 digests.", category="fault_enumeration")
add("C09", "runtime monitor: bitwise digests of paired seeded runs and of seeded resume pairs; global RNG state hashes at the exit of every library operation under three ambient seeds, on samplers built without and with random_state, and as the second call on one object; runs with neighbouring random_state values must share no particle; pairs evaluated through integer pools and an executor; reseed log from the np.random interposer",
    "Reproducibility decided bitwise on 11/160 construct+run pairs and 4/24 resume pairs; the reset clause decided deterministically per operation (state equality across ambient seeds is the witness) over 58-190 operation instances covering mixture fits, mode statistics, every pipeline step and the public sampler calls.",
    "Trusted: seeding with the user's random_state at construction / checkpoint load is the documented mechanism, any later reset is not.")
add("C10", "metamorphic pairs: same seeded real run with logL and logL+c; discrete structure exact, continuous quantities to rounding, recorded logZ_t shifted by beta_t*c; mismatch must reproduce on 2 of 3 further seeds; pairs with the ESS limit injected inside (1-2e-4, 1) and pairs whose prior transform returns float32 coordinates",
    "26 (quick) / 800 (thorough) pairs over kernel x resampler x clustering x evaluation mode x metric mode x shifts in [-1e3,1e3] incl. irrational ones, shifts across logL=0 and below -700, and histories above 4096 samples.",
    "Trusted: tolerance 1e-9 on particles (RWM adaptation rounding), 1e-8 relative on weights/ESS, 1e-9(1+|c|) on the logZ shift.")
add("C11", "runtime monitor: instrumented likelihood counts finite/-inf evaluations per warm-up batch, hull oracle on every recorded beta=0 evidence, and no record of log 1 once a zero-likelihood draw was observed; stored -inf checked at step hooks; directed warm-up batches served by the RNG interposer (chosen rows in the zero-likelihood region); runs with a pool argument (1, thread pool, executor); final evidence by two-stage replicate rule",
    "Hull test is exact per warm-up iteration on 74/400 traced runs (f in 0.15..1, 2-6 warm-up iterations, directed patterns row0/last/rows01/one-random/all-but-one); final evidence judged on R=32/96 replicates per cell.",
    "Trusted: closed-form evidence of the truncated Gaussian target; Rule S thresholds. Known finding: all-zero-likelihood-batch.")
add("C12", "runtime monitor: run() postconditions against the reference MIS model; all 16 posterior() option combinations x trimming parameters with row identity through the evaluation log; finished runs re-opened from their final checkpoint; a second run() on the same object; un-normalised likelihoods (constant of 720 ... 1e5 on logL); posterior() on a stored history of more than 2^17 rows",
    "Postconditions and the full posterior() contract (lengths, normalisation, uniformity, row alignment of x/logL/blob/logw/weights) decided on every completed run of a covering array (8 quick / ~260 thorough) x 16 combos x 5-9 trimming settings.",
    "Trusted: long-double MIS reference; log-weights compared up to one additive constant per call.")
add("C13", "runtime monitor over evaluation schedules: same seed under vectorised / scalar / reversed / permuted / delayed ThreadPool / full multiprocessing-Pool API with truly unordered variants / futures-style executor / genuine concurrent.futures.ThreadPoolExecutor / caller-made multiprocess.Pool object / integer pools / return-type variants (read-only view of a reused buffer, list, 0-d array, np.float64, longdouble), sha256 of histories, cross-process evaluation counter",
    "Transparency decided bitwise across 7-9 schedules x 4-6 configurations x 2-8 seeds (out-of-order completions are counted to show the schedules really differed); calls compared with a counter shared across threads and processes.",
    "Trusted: the harness likelihood is pointwise identical in all modes (vectorised mode evaluates row by row).")
add("C14", "invariant at the kernel boundary (hook on parallel_mcmc) and for every pool particle resampling can select: label < K, mode finite/SPD/positive dof, mode location inside the bounding box of the training particles carrying that label; noise-free probe sweep (RNG interposer) identifies the mode the kernel actually uses; synthetic dying-mode pools with directed victim labels through the real Trainer/Resampler, label consistency between training and resampling, purity of predict, monitored runs, resume points incl. the same object re-loaded from its own checkpoints",
    "300/5000 synthetic pool sequences (4-8 consecutive iterations, cluster_every 1-5, caps, sudden mode death, each label in turn losing all trimmed training points between refits) and 24/300 monitored runs incl. resume; gap iterations, directed iterations and probed walkers are counted so the evidence shows the hostile cases were reached.",
    "Trusted: a Student-t fit's location lies in its data's bounding box (C19); labels with <= n_dim distinct training points are not judged.")
add("C15", "runtime contract monitors on GaussianMixture / HierarchicalGaussianMixture over generated weighted data sets (incl. clusters 1e4-1e9 spreads apart); metamorphic weight-replication pairs with fixed EM step count; re-used model object vs fresh object (differential); prediction of a row alone vs inside batches of up to 70001 rows",
    "Algebraic invariants (weights, PSD, bounding box, label ranges, cap, min_points, predict ranges, centres/covariances of the hierarchical model for 'full') asserted on every fit of 300 (quick) / 5000 (thorough) generated data sets; replication equivalence on a third of them.",
    "Trusted: numpy eigvalsh; mean-in-box judged for component weight > 1e-3.")
add("C16", "runtime monitor: real apply_boundary_conditions/check_bounds vs exact rational (Fraction) fold on hostile and random doubles, memory layouts and index-list forms, index containers edited in place between calls, index arrays of every integer dtype in 70-300 dimensions, batches of 65537 ... 4e6 rows against their own pieces, FP-exception trap",
    "Each folded value is compared with the exact rational fold of the input double (error <= 2^-53), with idempotence, untouched-coordinate bit-identity, 1-D/2-D/Fortran/strided agreement and check_bounds equivalence; ~2e5 values quick, ~5e6 thorough plus hypothesis floats() and the repo's own suite under a contract monitor.",
    "Trusted: python fractions; the catalogue/generators decide reach.")
add("C17", "history + executable reference model: random StateManager operation sequences vs dict-of-copies model with a hostile caller overwriting every returned array (incl. 0-d arrays, read-only views of caller-owned buffers, ragged batches, save_state with every kind of exclude list); sampler-level twin runs compared bitwise (incl. a likelihood that returns a view of a reused buffer); append-only monitor on real runs",
    "After every operation the manager's public answers are compared with the reference model while every array handed to the caller is overwritten; 300 (quick) / 5000 (thorough) sequences of 40 operations plus hostile-vs-untouched twin sampler runs (incl. a zero-likelihood target) in which every committed batch is re-digested after every later iteration.",
    "Trusted: reference model (30 lines); donated inputs (copy=False, from_dict) are not judged.")
add("C18", "runtime monitor over 3-wise covering arrays of the constructor option lattice, each row in its own process under an iteration budget, postconditions against the reference model; one-factor invalid values with call counters on the instrumented user callables; the user's callables in 13 x 5 forms (builtins, operator objects, ufunc methods, partials, instances, bound methods, lambdas)",
    "3-wise coverage (measured: 99.7% of feasible triples, 190 rows; thorough four arrays) of 16 options incl. default n_particles, integer pools, save_every, boundary kinds; 34 invalid values x context variants must be rejected before any user callable is invoked.",
    "Trusted: greedy covering-array generator (coverage of t-tuples is measured, infeasible tuples dropped).")
add("C19", "runtime contract monitors on fit_mvstud / ModeStatistics (incl. the n_modes path with empty and singleton labels): well-posedness, metamorphic equivariance pairs each fitted under another ambient RNG state, particles squeezed to 1e-9.5 of the cube, fits on more than 2^20 rows, factor consistency, recovery on large multivariate-t samples",
    "Well-posedness and four equivariance pairs (scaling 1e-6..1e6, translation, translation by 1e7 sd, permutation) on 300 (quick) / 5000 (thorough) data sets, dof/location/SPD/Cholesky-inverse consistency at the kernel boundary, recovery on 18-72 large t samples.",
    "Trusted: rtol 1e-4 equivariance band; recovery bands nu +-25%, scale +-10%. Known finding: nu-estimate-infinite.")
add("C20", "runtime contract monitors on effective_sample_size / compute_ess / trim_weights / volume_variation with long-double references, extreme magnitudes, near-one weight sums, repeated calls, conditioning-aware affine pairs, exact power-of-two rescaling and rigid motions of structurally degenerate pools",
    "ESS bounds/scale/uniform, exact threshold-set trimming contract (ESS clause at rounding level, with directed re-requests just above a reachable ratio) and volume-metric invariances asserted on 3000 (quick) / 1e5 (thorough) generated weight vectors (600-decade range, zeros, ties, raw weights whose squares under/overflow).",
    "Trusted: long-double ESS; affine clause judged only when 1000*eps*kappa <= 1e-2.")

NOT_YET = {}


def main():
    props = [json.loads(l)["id"] for l in open(os.path.join(HERE, "properties.jsonl"))]
    try:
        commits = subprocess.run(["git", "-C", "/repo", "log", "--format=%H %s"], capture_output=True, text=True).stdout.splitlines()
    except Exception:
        commits = []
    hook_commits = [c.split()[0] for c in commits if " hook:" in c or c.split(" ", 1)[1].startswith("hook")]
    checks = []
    for pid in props:
        if pid not in CHECKS:
            continue
        c = CHECKS[pid]
        checks.append({
            "property_id": pid,
            "quick_cmd": f"./check {pid} --tier quick",
            "thorough_cmd": f"./check {pid} --tier thorough",
            "evidence_file": f"/verif/evidence/{pid}.json",
            "replay_cmd_template": f"./check {pid} --replay {{path}}",
            "engine": "tvf",
            "level_claimed": {"category": c["category"], "text": c["text"], "design_ref": c["ref"]},
            "level_note": c["note"],
            "technique": c["technique"],
        })
    na = [{"property_id": p, "reason": NOT_YET.get(p, "check not built yet in this revision (under construction; see DESIGN.md section 4)")}
          for p in props if p not in CHECKS]
    m = {
        "version": 1,
        "setup_cmd": "./setup.sh",
        "hooks": {
            "guard": "TEMPEST_VERIF",
            "enable": "no source hooks: all instrumentation is attached at run time by /verif/tvf (wrappers around the real classes, numpy.random interposer, instrumented user callables); ./check sets TEMPEST_VERIF=1 and PYTHONPATH=/verif:$TEMPEST_REPO so the current working tree of /repo is imported",
            "baseline_off_cmd": "cd /repo && env -u TEMPEST_VERIF /venv/bin/python -m pytest -ra -q -p no:cacheprovider --timeout=900 --continue-on-collection-errors",
            "source_commits": hook_commits,
            "add_only": True,
        },
        "engines": [{"name": "tvf", "path": "/verif/tvf", "serves_properties": [c["property_id"] for c in checks],
                     "kind_free_text": "python runtime-monitoring framework: hooks on real objects, RNG interposer, fault injection, reference models, replicate ensembles"}],
        "checks": checks,
        "notes": "All checks are runtime monitors over real executions of /repo's working tree (see DESIGN.md). Exit 0 held / 1 VIOLATION / 2 INCONCLUSIVE. Known findings: /verif/KNOWN_FINDINGS.txt.",
        "not_applicable": na,
    }
    json.dump(m, open(os.path.join(HERE, "MANIFEST.json"), "w"), indent=1)
    print(f"MANIFEST.json: {len(checks)} checks, {len(na)} not claimed")


if __name__ == "__main__":
    main()

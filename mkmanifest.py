#!/usr/bin/env python3
"""Regenerates MANIFEST.json from the table below (kept in one place so it stays valid)."""
import json
import os
import subprocess

HERE = os.path.dirname(os.path.abspath(__file__))

CHECKS = {
    # id: (technique, level text, level note, design ref)
}


def add(pid, technique, text, note, ref=None, category="exploration"):
    CHECKS[pid] = dict(technique=technique, text=text, note=note, ref=ref or f"DESIGN.md section 4, {pid}",
                       category=category)


add("C04", "runtime monitor: real StateManager.compute_logw_and_logz vs independent long-double reference model on generated and recorded histories, metamorphic relations, FP-exception trap",
    "Held on every generated history (3e3 quick / 1e5 thorough) and on every prefix of histories recorded from real runs; an oracle decides each case, so any deviation of the formula, normalisation, order-dependence, shift-equivariance or finiteness on an explored history is reported with the history as witness. Exploration, not proof: histories outside the generator families are not covered.",
    "Trusted: numpy long double arithmetic of the reference; tolerance 1e-9*(1+scale).")
add("C16", "runtime monitor: real apply_boundary_conditions/check_bounds vs exact rational (Fraction) fold on hostile and random doubles, FP-exception trap",
    "Each folded value is compared with the exact rational fold of the input double (error <= 2^-53), with idempotence, untouched-coordinate bit-identity, 1-D/2-D agreement and check_bounds equivalence; ~2e5 values quick, ~5e6 thorough plus hypothesis floats(). Exploration over a finite sample of the doubles, biased to the places where folds break (integers+-ulp, 2^63, huge magnitudes).",
    "Trusted: python fractions; the catalogue/generators decide reach.")

add("C06", "runtime monitor with injected randomness: systematic comb driven at every breakpoint +-1ulp / cell midpoint of its u0-partition via an np.random interposer, validated by an independent comb model; pooled multinomial counts",
    "For each generated (n,w) the whole u0 interval is covered through its finite partition (every breakpoint +-1 ulp, every midpoint, 0, 1-ulp), so length/range/monotonicity/floor-ceil copies/zero-weight clauses are decided for every offset of that (n,w) and unbiasedness by exact integration over cells; (n,w) themselves are sampled (400 quick / 1e4 thorough). Multinomial clause statistical (two-stage z>5.5).",
    "Trusted: long-double cumulative sums of the reference comb; np.random.choice semantics for the multinomial scheme.")
add("C15", "runtime contract monitors on GaussianMixture / HierarchicalGaussianMixture over generated weighted data sets; metamorphic weight-replication pairs with fixed EM step count",
    "Algebraic invariants (weights, PSD, bounding box, label ranges, cap, min_points, predict ranges) asserted on every fit of 300 (quick) / 5000 (thorough) generated data sets; replication equivalence on a third of them. Exploration over generator families.",
    "Trusted: numpy eigvalsh; mean-in-box judged for component weight > 1e-3.")
add("C17", "history + executable reference model: random StateManager operation sequences vs dict-of-copies model with a hostile caller overwriting every returned array; sampler-level twin runs compared bitwise",
    "After every operation the manager's public answers are compared with the reference model while every array handed to the caller is overwritten; 300 (quick) / 5000 (thorough) sequences of 40 operations plus hostile-vs-untouched twin sampler runs. Any aliasing that can influence a later answer, or a commit that alters history, diverges from the model.",
    "Trusted: reference model (30 lines); donated inputs (copy=False, from_dict) are not judged.")
add("C19", "runtime contract monitors on fit_mvstud / ModeStatistics: well-posedness, metamorphic equivariance pairs, recovery on large multivariate-t samples",
    "Well-posedness and three equivariance pairs on 300 (quick) / 5000 (thorough) data sets, dof-finiteness at the kernel boundary, recovery on 18-72 large t samples. The recovery clause is a KNOWN FINDING (nu is always inf).",
    "Trusted: rtol 1e-4 equivariance band; recovery bands nu +-25%, scale +-10%.")
add("C20", "runtime contract monitors on effective_sample_size / compute_ess / trim_weights / volume_variation with long-double references and conditioning-aware affine pairs",
    "ESS bounds/scale/uniform, exact threshold-set trimming contract and volume-metric invariances asserted on 3000 (quick) / 1e5 (thorough) generated weight vectors (600-decade range, zeros, ties).",
    "Trusted: long-double ESS; affine clause judged only when 1000*eps*kappa <= 1e-2.")
add("C07", "invariant at hooks: after Resampler.run / Mutator.run / every commit / sample() / posterior(), every particle row is looked up in the instrumented likelihood's evaluation log (unique ids in blobs) and x re-derived from u",
    "Every particle row at every step boundary of 21 (quick) / ~150 (thorough) monitored runs over a covering array of the option lattice (3e4-1e6 rows) is identified with the evaluation it came from; a split record (field moved alone) cannot match the log.",
    "Trusted: purity of the harness' prior transform and likelihood; x bytes / blob ids as record identity.")
add("C08", "fault enumeration: kill points before every I/O call of a checkpoint save and at byte offsets inside writes (in-process engine; strace syscall injection in thorough); digests of restored state vs digest hooked at save time; resumed runs monitored",
    "Every checkpoint of save_every=1 runs in 6/16 configurations is restored and compared bitwise; resumes checked for prefix identity, numbering, call counting, schedule and postconditions; every I/O call boundary of a save (open/write/flush/fsync/close/replace) plus byte offsets is a crash point in first-save and overwrite scenarios.",
    "Trusted: process death only (no power-loss semantics); sha256 digests.", category="fault_enumeration")
add("C09", "runtime monitor: bitwise digests of paired seeded runs; global RNG state hashes at the exit of every library operation under three ambient seeds; reseed log from the np.random interposer",
    "Reproducibility decided bitwise on 8/160 construct+run pairs; the reset clause decided deterministically per operation (state equality across ambient seeds is the witness) over 40-150 operation instances covering mixture fits, mode statistics, every pipeline step and the public sampler calls.",
    "Trusted: all tempest randomness flows through numpy's legacy global stream (tap counters show it).")
add("C11", "runtime monitor: instrumented likelihood counts finite/-inf evaluations per warm-up batch, hull oracle on every recorded beta=0 evidence; stored -inf checked at step hooks; final evidence by two-stage replicate rule",
    "Hull test is exact per warm-up iteration on 50/300 traced runs (f in 0.15..1, 2-6 warm-up iterations); final evidence judged on R=32/96 replicates per cell.",
    "Trusted: closed-form evidence of the truncated Gaussian target; Rule S thresholds (DESIGN 2.6).")
add("C12", "runtime monitor: run() postconditions against the reference MIS model; all 16 posterior() option combinations x trimming parameters with row identity through the evaluation log",
    "Postconditions and the full posterior() contract (lengths, normalisation, uniformity, row alignment of x/logL/blob/logw/weights) decided on every completed run of a covering array (8 quick / ~100 thorough) x 16 combos x 3-6 trimming settings.",
    "Trusted: long-double MIS reference; log-weights compared up to one additive constant per call.")
add("C13", "runtime monitor over evaluation schedules: same seed under vectorised / scalar / reversed / permuted / delayed ThreadPool / integer pools, sha256 of histories, cross-process evaluation counter",
    "Transparency decided bitwise across 5-7 schedules x 4-6 configurations x 2-8 seeds (out-of-order completions are counted to show the schedules really differed); calls compared with a counter shared across threads and processes.",
    "Trusted: the harness likelihood is pointwise identical in all modes (vectorised mode evaluates row by row).")
add("C14", "invariant at the kernel boundary (hook on parallel_mcmc): assignment < K, mode finite/SPD/positive dof, mode location inside the bounding box of the training particles carrying that label; synthetic dying-mode pools through the real Trainer/Resampler, monitored runs, resume points",
    "300/5000 synthetic pool sequences (4-8 consecutive iterations, cluster_every 1-5, caps, sudden mode death) and 24/300 monitored runs incl. resume; iterations with a label gap are counted so that the evidence shows the hostile case was reached.",
    "Trusted: a Student-t fit's location lies in its data's bounding box (C19); labels with <= n_dim distinct training points are not judged.")
add("C18", "runtime monitor over covering arrays of the constructor option lattice, each row in its own process under an iteration budget, postconditions against the reference model; one-factor invalid values with call counters on the instrumented user callables",
    "Pairwise (38 rows) / 3-wise (~600 rows) coverage of 16 options incl. default n_particles, integer pools, save_every, boundary kinds; 34 invalid values x context variants must be rejected before any user callable is invoked.",
    "Trusted: greedy covering-array generator (coverage of t-tuples is computed, infeasible tuples dropped).")
add("C01", "replicate ensembles of real Sampler.run() in separate processes vs closed-form posterior functionals; fixed two-stage decision rule (flag |b| > 4.5 se + 4 s/N, confirm on 2R fresh seeds); mechanism classifier for known findings",
    "Sampling-distribution claim decided on R=32 (quick) / 64 (thorough) independent runs per cell over 16-96 cells x ~10 estimands x 3 estimators (untrimmed / trimmed / resampled from the same runs); resolves biases of ~3% of a posterior sd at N=128; thorough judges the largest N.",
    "Trusted: closed-form targets; Rule S thresholds fixed in DESIGN 2.6; false-alarm probability per cell <= (7e-6)^2.")
add("C02", "replicate ensembles vs closed-form evidence (two-stage rule) + deterministic RNG-state-hash monitor at every pipeline step boundary of every run (shared or repeated state = shared innovations) + batch-means F test",
    "Evidence bias judged on R=48/96 runs per cell (se ~0.013 nat at N=128); independence decided deterministically: 1e4-1e5 RNG states hashed at step boundaries, any state shared by two seeds or recurring within a run is a witness.",
    "Trusted: numpy global stream is the only randomness source; closed-form logZ.")
add("C03", "injected randomness: RNG interposer serves chosen gamma/normal/uniform draws to the real TPCNRunner/RWMRunner, outcome compared with the tpCN/RWM specification (exact fold, scipy multivariate_t ratio, accept probes at alpha(1+-1e-9)); distributional invariance on exact pi_beta draws (paired z, confirm on fresh batch)",
    "2000/20000 conformance cases decide proposal map, gamma parameters, acceptance factor, accept rule, out-of-cube rejection and one-draw-per-proposal exactly; 22/150 invariance cells x 2e4/1e5 walkers decide pi_beta-invariance per kernel x boundary kind x covariance structure at z>5 twice.",
    "Trusted: scipy.stats.multivariate_t/truncnorm/vonmises; invariance shown for the exactly samplable families only.")
add("C05", "invariant at a hook on the real Reweighter.run: pool snapshot -> long-double reference ESS / logZ / weights at the recorded beta; ESS limit read at the hooked _find_beta_upper_limit and validated independently",
    "2000/50000 synthetic pools and every reweighting step of 24/400 monitored runs judged: monotone, bounded, ESS floor (rel 1e-9), volume mode within the ESS limit, recorded beta/logZ/ESS/weights self-consistent.",
    "Trusted: long-double reference; the ESS limit reported by the code is validated, not recomputed as a global supremum.")
add("C10", "metamorphic pairs: same seeded real run with logL and logL+c; discrete structure exact, continuous quantities to rounding, recorded logZ_t shifted by beta_t*c; mismatch must reproduce on 2 of 3 further seeds",
    "12 (quick) / 768 (thorough) pairs over kernel x resampler x clustering x evaluation mode x metric mode x 4-8 shifts in [-1e3,1e3].",
    "Trusted: tolerance 1e-9 on particles (RWM adaptation rounding), 1e-6 relative on weights/ESS.")

NOT_YET = {}


def main():
    props = [json.loads(l)["id"] for l in open(os.path.join(HERE, "properties.jsonl"))]
    try:
        commits = subprocess.run(["git", "-C", "/repo", "log", "--format=%H %s"], capture_output=True, text=True).stdout.splitlines()
    except Exception:
        commits = []
    hook_commits = [c.split()[0] for c in commits if " hook:" in c or c.split(" ", 1)[1].startswith("hook")]
    checks = []
    for pid in props:
        if pid not in CHECKS:
            continue
        c = CHECKS[pid]
        checks.append({
            "property_id": pid,
            "quick_cmd": f"./check {pid} --tier quick",
            "thorough_cmd": f"./check {pid} --tier thorough",
            "evidence_file": f"/verif/evidence/{pid}.json",
            "replay_cmd_template": f"./check {pid} --replay {{path}}",
            "engine": "tvf",
            "level_claimed": {"category": c["category"], "text": c["text"], "design_ref": c["ref"]},
            "level_note": c["note"],
            "technique": c["technique"],
        })
    na = [{"property_id": p, "reason": NOT_YET.get(p, "check not built yet in this revision (under construction; see DESIGN.md section 4)")}
          for p in props if p not in CHECKS]
    m = {
        "version": 1,
        "setup_cmd": "./setup.sh",
        "hooks": {
            "guard": "TEMPEST_VERIF",
            "enable": "no source hooks: all instrumentation is attached at run time by /verif/tvf (wrappers around the real classes, numpy.random interposer, instrumented user callables); ./check sets TEMPEST_VERIF=1 and PYTHONPATH=/verif:$TEMPEST_REPO so the current working tree of /repo is imported",
            "baseline_off_cmd": "cd /repo && env -u TEMPEST_VERIF /venv/bin/python -m pytest -ra -q -p no:cacheprovider --timeout=900 --continue-on-collection-errors",
            "source_commits": hook_commits,
            "add_only": True,
        },
        "engines": [{"name": "tvf", "path": "/verif/tvf", "serves_properties": [c["property_id"] for c in checks],
                     "kind_free_text": "python runtime-monitoring framework: hooks on real objects, RNG interposer, fault injection, reference models, replicate ensembles"}],
        "checks": checks,
        "notes": "All checks are runtime monitors over real executions of /repo's working tree (see DESIGN.md). Exit 0 held / 1 VIOLATION / 2 INCONCLUSIVE. Known findings: /verif/KNOWN_FINDINGS.txt.",
        "not_applicable": na,
    }
    json.dump(m, open(os.path.join(HERE, "MANIFEST.json"), "w"), indent=1)
    print(f"MANIFEST.json: {len(checks)} checks, {len(na)} not claimed")


if __name__ == "__main__":
    main()

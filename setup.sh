#!/bin/bash
# Offline setup: verify interpreter + imports, create output dirs, optionally install icontract.
set -u
cd "$(dirname "${BASH_SOURCE[0]}")"
mkdir -p out evidence
PY=/venv/bin/python
$PY - <<'PY' || { echo "setup: required imports missing"; exit 1; }
import numpy, scipy, dill, tqdm
print("numpy", numpy.__version__, "scipy", scipy.__version__, "dill", dill.__version__)
PY
if [ ! -d .deps/icontract ]; then
  PIP_NO_INDEX=1 /venv/bin/pip install -q --no-index --find-links /opt/veriftools/wheels --target .deps icontract >/dev/null 2>&1 \
    || echo "setup: icontract not installed (optional; checks fall back to plain wrappers)"
fi
PYTHONPATH=/verif:/repo $PY -c "import tvf.env, tempest; print('tvf ok; tempest from', tempest.__file__)" || exit 1
exit 0

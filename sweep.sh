#!/bin/bash
# usage: sweep.sh <tier> <seed-list, comma separated> <check ids...>   -> one summary line per run
tier=$1; seeds=$2; shift 2
cd "$(dirname "${BASH_SOURCE[0]}")"
mkdir -p out/sweep
for s in ${seeds//,/ }; do
  for c in "$@"; do
    t0=$(date +%s)
    VERIF_SEED=$s ./check $c --tier $tier > out/sweep/$c-$tier-$s.log 2>&1
    rc=$?
    echo "$c tier=$tier seed=$s exit=$rc wall=$(( $(date +%s) - t0 ))s $(grep -c '^KNOWN-FINDING' out/sweep/$c-$tier-$s.log) known  $(grep -E '^  violated|^INCONCLUSIVE' out/sweep/$c-$tier-$s.log | head -3 | cut -c1-200 | tr '\n' '|')"
  done
done

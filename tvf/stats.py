"""The fixed statistical decision rules (DESIGN 2.6).  Thresholds are constants."""
from __future__ import annotations

import math

import numpy as np

Z_S = 4.5      # Rule S flag threshold (in standard errors)
Z_P = 5.0      # Rule P
Z_CHI = 5.5    # Rule chi
ALLOW = 4.0    # finite-particle allowance a(N) = ALLOW * scale / N


def rule_s(est, truth, scale, N, R_required):
    """est: replicate estimates.  Returns dict(flag, b, se, z, allowance, n, inconclusive)."""
    est = np.asarray([e for e in est if e is not None and np.isfinite(e)], float)
    n = len(est)
    if n < max(4, int(math.ceil(0.9 * R_required))):
        return dict(flag=False, inconclusive=True, n=n, b=None, se=None, z=None, allowance=ALLOW * scale / N)
    b = float(est.mean() - truth)
    se = float(est.std(ddof=1) / math.sqrt(n))
    a = ALLOW * scale / N
    flag = abs(b) > Z_S * se + a
    return dict(flag=bool(flag), inconclusive=False, n=n, b=b, se=se, z=(b / se if se > 0 else float("inf") if b else 0.0),
                allowance=a, sign=int(np.sign(b)))


def confirm_s(first, second):
    """violation only if flagged again on fresh seeds with the same sign."""
    return bool(first["flag"] and second["flag"] and first["sign"] == second["sign"])


def rule_p(delta):
    """paired differences (mean 0 under invariance) -> z."""
    d = np.asarray(delta, float)
    n = len(d)
    sd = d.std(ddof=1)
    if sd == 0:
        return 0.0 if d.mean() == 0 else float("inf") * np.sign(d.mean())
    return float(d.mean() / (sd / math.sqrt(n)))

"""Run-time wrappers around the real tempest seams (no source edits).

Hooks(...) is a context manager; .wrap(obj, name, before=, after=, around=) replaces an
attribute of a class/module with a wrapper and restores it on exit.  Every wrapper counts
its invocations in .count[name] so that a check can go *inconclusive* when a seam was
never reached (e.g. after a refactor renamed it).
"""
from __future__ import annotations

import functools
from collections import Counter


class IterationBudgetExceeded(RuntimeError):
    pass


class Hooks:
    def __init__(self):
        self._undo = []
        self.count = Counter()

    def wrap(self, owner, name, before=None, after=None, label=None):
        inherited = False
        if isinstance(owner, type):
            if name in owner.__dict__:
                orig = owner.__dict__[name]
            else:
                inherited = True
                orig = next(k.__dict__[name] for k in owner.__mro__ if name in k.__dict__)
        else:
            orig = getattr(owner, name)
        is_static = isinstance(orig, staticmethod)
        is_class = isinstance(orig, classmethod)
        fn = orig.__func__ if (is_static or is_class) else orig
        lab = label or f"{getattr(owner, '__name__', owner)}.{name}"
        hooks = self

        @functools.wraps(fn)
        def w(*a, **k):
            hooks.count[lab] += 1
            ctx = before(*a, **k) if before is not None else None
            r = fn(*a, **k)
            if after is not None:
                r2 = after(ctx, r, *a, **k)
                if r2 is not None:
                    r = r2
            return r
        new = staticmethod(w) if is_static else classmethod(w) if is_class else w
        setattr(owner, name, new)
        self._undo.append((owner, name, None if inherited else orig, inherited))
        return w

    def __enter__(self):
        return self

    def __exit__(self, *exc):
        for owner, name, orig, inherited in reversed(self._undo):
            if inherited:
                delattr(owner, name)
            else:
                setattr(owner, name, orig)
        self._undo.clear()
        return False


def iteration_budget(hooks, limit=400):
    """Bounded progress in logical steps: abort a run after `limit` iterations."""
    from tempest.core import SamplerCore
    n = {"it": 0}

    def before(self, *a, **k):
        n["it"] += 1
        if n["it"] > limit:
            raise IterationBudgetExceeded(f"more than {limit} iterations")
    hooks.wrap(SamplerCore, "execute_iteration", before=before)
    return n


def pin_limit(hooks, pin, min_beta=0.3):
    """Injected reweighter decision: the first time (late in a run) the ESS-limited upper temperature comes out as exactly
    1.0, it is replaced by `pin` in (1 - 2e-4, 1) - a conservative, valid limit that the real code then carries through its
    own decision, weight, logZ and finalisation paths.  Ordinary runs step over this band (probability ~1e-4 per run), so
    nothing that happens to a temperature strictly between 1 - BETA_TOLERANCE and 1 is otherwise ever observed.  The
    injection is keyed on the iteration number, so a second Reweighter working on a copy of the same state (differential
    oracle) receives the same injection."""
    from tempest.steps.reweight import Reweighter
    st = {"iter": None, "n": 0}

    def after(ctx, r, self, beta_current, *a, **k):
        if pin is None or float(r) != 1.0 or float(beta_current) < min_beta:
            return None
        it = int(self.state.get_current("iter"))
        if st["iter"] is None:
            st["iter"] = it
        if it != st["iter"]:
            return None
        st["n"] += 1
        return float(pin)
    hooks.wrap(Reweighter, "_find_beta_upper_limit", after=after, label="pin_limit")
    return st

"""Instrumented user boundary: likelihood / prior transform with unique ids and an
evaluation log ("make histories unambiguous").

modes:
  'vec'     vectorised likelihood  f(x[n,d]) -> logl[n]
  'scalar'  pointwise likelihood   f(x[d])   -> float
  'blobs'   pointwise with blob    f(x[d])   -> (float, id)      (blobs_dtype = float)
The log maps x-bytes -> logl (all modes) and id -> (x-bytes, logl) (blob mode).
"""
from __future__ import annotations

import threading

import numpy as np

SHARED = None      # multiprocessing.Value inherited through fork: cross-process evaluation counter


class Likelihood:
    def __init__(self, target, mode="vec", shift=0.0, delay=None, shared_counter=None, pointwise=False):
        self.t = target
        self.mode = mode
        self.shift = shift
        self.n_points = 0
        self.n_calls = 0
        self.n_inf = 0
        self.by_x = {}
        self.by_id = {}
        self.order = []          # evaluation order of x-bytes (for schedule monitors)
        self._lock = threading.Lock()
        self._next = 1
        self.delay = delay
        self.shared = shared_counter
        self.keep_log = True
        self.pointwise = pointwise   # vec mode evaluates row by row (bitwise the scalar function)
        self.keep_dtypes = set()     # dtypes of the points this likelihood was handed (in this process)
        self.ro_buffer = False       # vec mode: evaluate into one preallocated buffer and return a READ-ONLY view of it
        self._buf = None             # (a caller that owns its output memory and reuses it on the next call)

    # pickling support (dill pickles the sampler at checkpoint time)
    def __getstate__(self):
        d = self.__dict__.copy()
        d["_lock"] = None
        d["shared"] = None
        d["by_x"] = {}
        d["by_id"] = {}
        d["order"] = []
        d["_buf"] = None
        d["keep_dtypes"] = set()
        return d

    def __setstate__(self, d):
        self.__dict__.update(d)
        self._lock = threading.Lock()
        self.shared = SHARED

    def _ll(self, x):
        v = self.t.loglike(x)
        return v + self.shift

    def __call__(self, x, *extra, **kwextra):
        if extra or kwextra:
            # a likelihood with extra arguments L(x, mu, s, tag=...) = L0(x - mu) + s + tag (asymmetric in its arguments: called
            # with the arguments in another order it returns something else or fails)
            mu, s_ = extra
            base = Likelihood.__call__(self, np.asarray(x, dtype=float) - np.asarray(mu, dtype=float))
            add = float(s_) + float(kwextra.get("tag", 0.0))
            if isinstance(base, tuple):
                return (base[0] + add,) + tuple(base[1:])
            if isinstance(base, list):
                return [v + add for v in base]
            return base + add
        x = np.asarray(x)
        if self.keep_dtypes is not None:
            self.keep_dtypes.add(str(x.dtype))
        # the likelihood itself always computes in double precision, whatever dtype the prior transform hands over
        xc = x if x.dtype == np.float64 else x.astype(np.float64)
        if self.mode == "vec":
            if self.pointwise:
                ll = np.array([float(self._ll(xi)) for xi in xc], dtype=float)
            else:
                ll = np.asarray(self._ll(xc), dtype=float)
            with self._lock:
                self.n_calls += 1
                self.n_points += len(x)
                self.n_inf += int(np.sum(np.isneginf(ll)))
                if self.keep_log:
                    for xi, li in zip(x, ll):
                        self.by_x[xi.tobytes()] = float(li)
            if self.shared is not None:
                with self.shared.get_lock():
                    self.shared.value += len(x)
            if getattr(self, "ret_type", "float") == "vec-list":
                return [float(v) for v in ll]        # a vectorised likelihood that returns a plain list
            if self.ro_buffer:
                if self._buf is None or len(self._buf) < len(ll):
                    self._buf = np.empty(max(len(ll), 4096))
                self._buf[:] = -1.2345e5            # whatever the previous call left is gone
                self._buf[:len(ll)] = ll
                out = self._buf[:len(ll)]
                out = out.view()
                out.setflags(write=False)
                return out
            return ll
        if self.delay is not None:
            self.delay(x)
        ll = float(self._ll(xc))
        with self._lock:
            self.n_calls += 1
            self.n_points += 1
            self.n_inf += int(ll == -np.inf)
            k = x.tobytes()
            if self.keep_log:
                self.by_x[k] = ll
                self.order.append(k)
            if self.mode in ("blobs", "blobs2", "blobs3", "blobsI", "blobsS"):
                i = self._next
                self._next += 1
                if self.keep_log:
                    self.by_id[i] = (k, ll)
        if self.shared is not None:
            with self.shared.get_lock():
                self.shared.value += 1
        rt = getattr(self, "ret_type", "float")
        if rt != "float":
            # the same real number in the other types user code commonly returns
            ll = {"0d": np.array(ll), "np64": np.float64(ll), "ld": np.longdouble(ll), "vec-list": ll}[rt]
        if self.mode == "blobview":
            # the blob is the argument itself (a reference, not a copy): "return logl, x" / "return logl, x[:k]" in user code
            return ll, x
        if self.mode == "blobsI":
            return ll, int(i) + 2 ** 53          # an integer label that a detour through float64 would change (blobs_dtype int64)
        if self.mode == "blobsS":
            return ll, f"evaluation-{i}"         # a string label (blobs_dtype object)
        if self.mode == "blobs":
            return ll, float(i)
        if self.mode == "blobs2":
            return ll, float(i), 0.5 * float(i)
        if self.mode == "blobs3":
            return ll, float(i), 0.5 * float(i), float(i) + 0.25
        return ll


class Transform:
    """Prior transform with call counter (must be pure: re-evaluated by the monitors)."""

    def __init__(self, target, dtype=None, alias=False, style=None):
        self.t = target
        self.n_calls = 0
        self.dtype = dtype
        # style "indexed": written for ONE point, parameter by parameter (x[0] = f0(u[0]); x[1] = f1(u[1]); ...), as the
        # library's documentation recommends for non-trivial priors.  Handed a whole (n, d) batch it neither raises nor
        # broadcasts row-wise - it returns an array of the same shape with other contents.
        self.style = style
        # alias: for a unit-cube prior the transform is the identity and returns ITS ARGUMENT (`lambda u: u`), so x and u are
        # one object unless the library copies
        self.alias = bool(alias) and bool(np.all(np.asarray(target.lo) == 0.0) and np.all(np.asarray(target.hi) == 1.0)) \
            and type(target).prior_transform.__qualname__.startswith("Target.")

    def __call__(self, u):
        self.n_calls += 1
        if self.alias:
            return u
        if self.style == "indexed" and type(self.t).prior_transform.__qualname__.startswith("Target."):
            u = np.asarray(u)
            x = np.zeros_like(u)
            for i in range(self.t.n_dim):
                x[i] = self.t.lo[i] + (self.t.hi[i] - self.t.lo[i]) * u[i]
            return x
        x = self.t.prior_transform(u)
        return x if self.dtype is None else np.asarray(x).astype(self.dtype)

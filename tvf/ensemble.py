"""Replicate ensembles of real Sampler.run() calls (one process each) for Rule S."""
from __future__ import annotations

import json

from tvf import farm, stats


def cell_key(cfg):
    return json.dumps({k: v for k, v in sorted(cfg.items()) if k != "seed"}, sort_keys=True, default=str)


def campaign(ck, cells, R, tag, func="tvf.runs:run_summary", timeout=600, R0=None):
    """cells: list of cfg dicts (without seed).  Returns {index: [summary,...]} and failure list."""
    tasks = []
    owner = []
    for ci, cfg in enumerate(cells):
        for r in range(int(cfg.get("reps", 0)) * max(1, R // R0) if cfg.get("reps") and R0 else R):
            tasks.append((func, dict(cfg=dict(cfg, seed=ck.subseed(tag, ci, r))), None))
            owner.append(ci)
    out = {ci: [] for ci in range(len(cells))}
    fails = {ci: [] for ci in range(len(cells))}
    for i, st, val in farm.run(tasks, timeout=timeout, progress=f"{ck.pid}-{tag}"):
        ci = owner[i]
        if st == "ok":
            out[ci].append(val)
        else:
            fails[ci].append((st, str(val)[-400:], tasks[i][1]["cfg"].get("seed")))
    return out, fails


def judge(ck, cells, extract, R, tag, on_violation, N_of=lambda c: c["N"], label=lambda c: cell_key(c)[:200]):
    """Two-stage Rule S over all cells.
    extract(cfg, summaries) -> list of (name, estimates[list], truth, scale).
    on_violation(cfg, name, first, second) records the violation (with mechanism key)."""
    # a cell may carry its own replicate count ("reps": expensive cells); the confirmation stage doubles it like the others
    res, fails = campaign(ck, cells, R, tag, R0=R)
    flagged = []
    table = []
    for ci, cfg in enumerate(cells):
        for st, msg, seed in fails[ci][:3]:
            if st == "timeout":
                ck.inconc(f"replicate watchdog in cell {label(cfg)}")
            else:
                ck.violation("run-crashed", f"replicate of {label(cfg)} seed={seed}: {st} {msg}", dict(cfg=cfg, seed=seed))
        for name, est, truth, scale in extract(cfg, res[ci]):
            r = stats.rule_s(est, truth, scale, N_of(cfg), cfg.get("reps", R))
            ck.case(dict(cell=json.loads(cell_key(cfg)), estimand=name), nontrivial=not r["inconclusive"])
            ck.event("ensemble cells judged by Rule S")
            ck.event("replicate runs contributing", r["n"])
            row = dict(cell=label(cfg), estimand=name, truth=truth, n=r["n"], b=r["b"], se=r["se"], z=r["z"], allowance=r["allowance"], flag=r["flag"])
            table.append(row)
            if r["inconclusive"]:
                ck.inconc(f"cell {label(cfg)} {name}: only {r['n']} of {R} replicates completed")
            elif r["flag"]:
                flagged.append((ci, name, r))
    if flagged:
        # stage 2: fresh seeds, 2R replicates, only the flagged cells
        cis = sorted({ci for ci, _, _ in flagged})
        sub = [cells[ci] for ci in cis]
        res2, fails2 = campaign(ck, sub, 2 * R, tag + "-confirm", R0=R)
        for ci, name, r1 in flagged:
            j = cis.index(ci)
            ex = {n: (e, t, s) for n, e, t, s in extract(cells[ci], res2[j])}
            if name not in ex:
                continue
            e, t, s = ex[name]
            r2 = stats.rule_s(e, t, s, N_of(cells[ci]), 2 * cells[ci].get("reps", R))
            ck.event("flagged cells re-run on fresh seeds")
            row = dict(cell=label(cells[ci]), estimand=name, stage=2, n=r2["n"], b=r2["b"], se=r2["se"], z=r2["z"], flag=r2["flag"])
            table.append(row)
            if r2["inconclusive"]:
                ck.inconc(f"confirmation of {label(cells[ci])} {name} incomplete")
            elif stats.confirm_s(r1, r2):
                on_violation(cells[ci], name, r1, r2)
            else:
                ck.note(f"statistical fluctuation: {label(cells[ci])} {name} flagged (z={r1['z']:.2f}) then clean (z={r2['z']:.2f})")
    return table

"""Fault injection engine A (in-process, portable): every I/O call a checkpoint save makes
under a directory is an enumerated kill point.

install(plan, directory) replaces builtins.open / io.open (write modes under `directory`),
os.replace, os.rename, os.fsync, os.unlink/remove in the *current* process (intended for a
forked child).  In 'record' mode the plan logs the I/O event sequence; in 'kill' mode the
process dies with os._exit(137) *before* event number `target` -- or, for an OS-level write
event and a byte offset, after exactly that many bytes of it reached the file.  The code
under test gets a real io.BufferedWriter on top of the killing raw layer, so bytes that are
still in the user-space buffer at the moment of death are lost, exactly as with SIGKILL
(events: open, pywrite = Python-level write call, write = bytes reaching the OS, flush,
fsync, close, replace/rename).
"""
from __future__ import annotations

import builtins
import io
import os


class Plan:
    def __init__(self, mode="record", target=None, offset=0):
        self.mode = mode
        self.target = target
        self.offset = offset
        self.events = []
        self.n = 0

    def hit(self, kind, detail=None):
        """Called before the I/O operation is performed.  Returns partial byte count or None."""
        i = self.n
        self.n += 1
        if self.mode == "record":
            self.events.append((kind, detail))
            return None
        if i == self.target:
            if self.mode == "short":
                # the OS accepts only part of this write() and reports the count (file-size limit, full disk, signal): no death
                return ("short", max(1, min(self.offset, detail - 1))) if (kind == "write" and detail > 1) else None
            if kind == "write" and self.offset:
                return min(self.offset, detail)
            os._exit(137)
        return None


class KillRaw(io.RawIOBase):
    """Raw layer under a *real* io.BufferedWriter: sees exactly the bytes that reach the OS.
    Bytes still sitting in the BufferedWriter's user-space buffer when the process dies are
    lost, as they are for a real SIGKILL."""

    def __init__(self, raw, plan):
        super().__init__()
        self.raw = raw
        self.plan = plan

    def writable(self):
        return True

    def write(self, data):
        mv = memoryview(data).cast("B")
        part = self.plan.hit("write", len(mv))
        if isinstance(part, tuple):
            return self.raw.write(mv[:part[1]])          # short write: the caller is told how much was taken
        if part is not None:
            self.raw.write(mv[:part])
            os._exit(137)
        return self.raw.write(mv)

    def fileno(self):
        return self.raw.fileno()

    def close(self):
        if not self.closed:
            try:
                self.raw.close()
            finally:
                super().close()


class Proxy:
    """Python-level file object handed to the code under test (a real BufferedWriter inside)."""

    def __init__(self, buffered, plan, path):
        self.buf = buffered
        self.plan = plan
        self.path = path

    def write(self, data):
        self.plan.hit("pywrite", len(memoryview(data).cast("B")))
        return self.buf.write(data)

    def flush(self):
        self.plan.hit("flush", self.path)
        return self.buf.flush()

    def fileno(self):
        return self.buf.fileno()

    def close(self):
        self.plan.hit("close", self.path)
        return self.buf.close()

    def __enter__(self):
        return self

    def __exit__(self, *a):
        self.close()
        return False

    def __getattr__(self, k):
        return getattr(self.buf, k)


def install(plan, directory, buffer_size=io.DEFAULT_BUFFER_SIZE):
    directory = os.path.realpath(str(directory))
    real_open = builtins.open

    def under(p):
        try:
            return os.path.realpath(os.fspath(p)).startswith(directory + os.sep)
        except TypeError:
            return False

    def my_open(file, mode="r", *a, **k):
        if any(c in mode for c in "wax+") and under(file):
            plan.hit("open", (os.path.basename(os.fspath(file)), mode))
            raw = real_open(file, mode if "b" in mode else mode + "b", buffering=0)
            buffering = k.get("buffering", a[0] if a else -1)
            if buffering == 0:
                # the code asked for an unbuffered file: it talks to the raw layer itself (and has to deal with short writes itself)
                return Proxy(KillRaw(raw, plan), plan, os.path.basename(os.fspath(file)))
            return Proxy(io.BufferedWriter(KillRaw(raw, plan), buffer_size=buffer_size), plan, os.path.basename(os.fspath(file)))
        return real_open(file, mode, *a, **k)

    builtins.open = my_open
    io.open = my_open
    # zero-copy paths used by shutil (copy-into-place when a rename crosses filesystems) bypass write(): they are
    # events too; a partial transfer is modelled by killing before the call (the destination is already truncated)
    for name in ("sendfile", "copy_file_range", "splice"):
        if hasattr(os, name):
            real = getattr(os, name)

            def mkz(real, name):
                def f(*a, **k):
                    plan.hit(name, None)
                    return real(*a, **k)
                return f
            setattr(os, name, mkz(real, name))
    for name in ("replace", "rename", "fsync", "unlink", "remove", "link"):
        real = getattr(os, name)

        def mk(real, name):
            def f(*a, **k):
                det = tuple(os.path.basename(os.fspath(x)) if isinstance(x, (str, bytes, os.PathLike)) else x for x in a)
                plan.hit(name, det)
                return real(*a, **k)
            return f
        setattr(os, name, mk(real, name))
    return plan


def kill_points(events, inner_offsets):
    """Enumerate (target, offset) pairs from a recorded event list.
    inner_offsets(nbytes, write_index) -> iterable of byte offsets strictly inside the write."""
    pts = []
    wi = 0
    for i, (kind, det) in enumerate(events):
        pts.append((i, 0, kind))
        if kind == "write":
            for off in inner_offsets(det, wi):
                if 0 < off < det:
                    pts.append((i, int(off), "write+%d" % off))
            wi += 1
    return pts

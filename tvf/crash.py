"""Fault injection engine A (in-process, portable): every I/O call a checkpoint save makes
under a directory is an enumerated kill point.

install(plan, directory) replaces builtins.open / io.open (write modes under `directory`),
os.replace, os.rename, os.fsync, os.unlink/remove in the *current* process (intended for a
forked child).  In 'record' mode the plan logs the I/O event sequence; in 'kill' mode the
process dies with os._exit(137) *before* event number `target` -- or, for a write event
and a byte offset, after having written exactly that many bytes of it (unbuffered), which
is what a SIGKILL in the middle of a write(2) sequence leaves behind.
"""
from __future__ import annotations

import builtins
import io
import os


class Plan:
    def __init__(self, mode="record", target=None, offset=0):
        self.mode = mode
        self.target = target
        self.offset = offset
        self.events = []
        self.n = 0

    def hit(self, kind, detail=None):
        """Called before the I/O operation is performed.  Returns partial byte count or None."""
        i = self.n
        self.n += 1
        if self.mode == "record":
            self.events.append((kind, detail))
            return None
        if i == self.target:
            if kind == "write" and self.offset:
                return min(self.offset, detail)
            os._exit(137)
        return None


class Proxy:
    def __init__(self, raw, plan, path):
        self.raw = raw
        self.plan = plan
        self.path = path

    def write(self, data):
        mv = memoryview(data).cast("B")
        part = self.plan.hit("write", len(mv))
        if part is not None:
            self.raw.write(mv[:part])
            os._exit(137)
        return self.raw.write(mv)

    def flush(self):
        self.plan.hit("flush", self.path)
        return self.raw.flush()

    def fileno(self):
        return self.raw.fileno()

    def close(self):
        self.plan.hit("close", self.path)
        return self.raw.close()

    def __enter__(self):
        return self

    def __exit__(self, *a):
        self.close()
        return False

    def __getattr__(self, k):
        return getattr(self.raw, k)


def install(plan, directory):
    directory = os.path.realpath(str(directory))
    real_open = builtins.open

    def under(p):
        try:
            return os.path.realpath(os.fspath(p)).startswith(directory + os.sep)
        except TypeError:
            return False

    def my_open(file, mode="r", *a, **k):
        if any(c in mode for c in "wax+") and under(file):
            plan.hit("open", (os.path.basename(os.fspath(file)), mode))
            raw = real_open(file, mode if "b" in mode else mode + "b", buffering=0)
            return Proxy(raw, plan, os.path.basename(os.fspath(file)))
        return real_open(file, mode, *a, **k)

    builtins.open = my_open
    io.open = my_open
    for name in ("replace", "rename", "fsync", "unlink", "remove", "link"):
        real = getattr(os, name)

        def mk(real, name):
            def f(*a, **k):
                det = tuple(os.path.basename(os.fspath(x)) if isinstance(x, (str, bytes, os.PathLike)) else x for x in a)
                plan.hit(name, det)
                return real(*a, **k)
            return f
        setattr(os, name, mk(real, name))
    return plan


def kill_points(events, inner_offsets):
    """Enumerate (target, offset) pairs from a recorded event list.
    inner_offsets(nbytes, write_index) -> iterable of byte offsets strictly inside the write."""
    pts = []
    wi = 0
    for i, (kind, det) in enumerate(events):
        pts.append((i, 0, kind))
        if kind == "write":
            for off in inner_offsets(det, wi):
                if 0 < off < det:
                    pts.append((i, int(off), "write+%d" % off))
            wi += 1
    return pts

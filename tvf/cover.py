"""Greedy t-wise covering arrays over an option lattice (own generator, deterministic per seed)."""
from __future__ import annotations

import itertools

import numpy as np


def covering(factors: dict, t: int, rng, valid=None, candidates=40):
    names = list(factors)
    t = min(t, len(names))
    combos = list(itertools.combinations(range(len(names)), t))
    uncovered = set()
    for cs in combos:
        for vs in itertools.product(*[range(len(factors[names[c]])) for c in cs]):
            uncovered.add((cs, vs))
    # drop tuples that no valid row can contain
    rows = []

    def as_cfg(row):
        return {names[i]: factors[names[i]][row[i]] for i in range(len(names))}

    def gain(row):
        g = 0
        for cs in combos:
            if (cs, tuple(row[c] for c in cs)) in uncovered:
                g += 1
        return g
    stall = 0
    while uncovered and stall < 30:
        best, bg = None, -1
        # seed candidate with one uncovered tuple
        cs0, vs0 = next(iter(uncovered)) if rng.random() < 0.5 else list(uncovered)[int(rng.integers(len(uncovered)))]
        for _ in range(candidates):
            row = [int(rng.integers(len(factors[n]))) for n in names]
            for c, v in zip(cs0, vs0):
                row[c] = v
            if valid is not None and not valid(as_cfg(row)):
                continue
            g = gain(row)
            if g > bg:
                best, bg = row, g
        if best is None or bg <= 0:
            stall += 1
            if best is None:
                uncovered.discard((cs0, vs0))   # infeasible tuple
            continue
        stall = 0
        rows.append(best)
        for cs in combos:
            uncovered.discard((cs, tuple(best[c] for c in cs)))
    return [as_cfg(r) for r in rows]


def coverage(rows, factors, t, valid=None):
    """Fraction of feasible t-tuples of factor values covered by `rows` (measured, not assumed)."""
    names = list(factors)
    t = min(t, len(names))
    tot = cov = 0
    seen = {}
    for r in rows:
        for cs in itertools.combinations(range(len(names)), t):
            seen.setdefault(cs, set()).add(tuple(r[names[c]] if not isinstance(r[names[c]], list) else tuple(r[names[c]]) for c in cs))
    for cs in itertools.combinations(range(len(names)), t):
        for vs in itertools.product(*[factors[names[c]] for c in cs]):
            tot += 1
            key = tuple(v if not isinstance(v, list) else tuple(v) for v in vs)
            if key in seen.get(cs, ()):
                cov += 1
    return dict(t=t, tuples=tot, covered=cov, fraction=round(cov / max(tot, 1), 4))

"""Thorough-tier auxiliary workload: the repository's own test suite with contract monitors on."""
from __future__ import annotations

import json
import os
import subprocess
import sys
import tempfile

from tvf.env import OUT, REPO, ROOT


def run_suite_with_contracts(ck, names):
    """Runs pytest in the repo under test with tvf.pytest_plugin; folds the contracts in `names` into ck."""
    OUT.mkdir(exist_ok=True)
    fd, log = tempfile.mkstemp(prefix="contracts-", suffix=".jsonl", dir=str(OUT))
    os.close(fd)
    env = dict(os.environ, TVF_CONTRACT_LOG=log, PYTHONPATH=f"{ROOT}:{REPO}", PYTHONDONTWRITEBYTECODE="1", OMP_NUM_THREADS="1")
    try:
        r = subprocess.run([sys.executable, "-m", "pytest", "-q", "-x", "-p", "no:cacheprovider", "-p", "tvf.pytest_plugin", "--timeout=900",
                            "--deselect", "tests/test_sample_method.py::SampleMethodTestCase::test_sample_with_save_every",
                            "--deselect", "tests/test_sampler_features.py::SamplerFeaturesTestCase::test_custom_output_dir",
                            "--deselect", "tests/test_state.py::SamplerStateTestCase::test_resume"],
                           cwd=str(REPO), env=env, capture_output=True, text=True, timeout=1800)
        recs = [json.loads(l) for l in open(log) if l.strip()]
    except Exception as e:
        ck.note(f"auxiliary suite-with-contracts workload did not run: {e}")
        return
    finally:
        try:
            os.unlink(log)
        except OSError:
            pass
    if not recs:
        ck.note("auxiliary suite-with-contracts workload produced no log (plugin not loaded?)")
        return
    rec = recs[-1]
    for n in names:
        c = rec["counts"].get(n, 0)
        ck.event(f"repository test suite: {n} calls judged by the contract monitor", c)
        ck.case(dict(auxiliary="repository test suite with contract monitors", contract=n, calls=c), nontrivial=c > 0)
    for b in rec["bad"]:
        if b["contract"] in names:
            ck.violation("contract-in-own-test-suite-" + b["contract"], f"while running the repository's own tests: {b['what']}", b)

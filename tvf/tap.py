"""Interposer on the numpy legacy global stream (np.random.<fn>), which is the only
source of randomness tempest uses (looked up at call time as np.random.X).

* counts and optionally logs every draw (function, caller, args),
* can *serve* a chosen sequence of values per function (injected randomness),
* caps the number of calls so that a redraw loop fed with adversarial values cannot
  spin forever (raises TapCap),
* logs every reseed (np.random.seed / set_state) with the calling file:line and value.
"""
from __future__ import annotations

import os
import sys
from collections import Counter, deque

import numpy as np

FUNCS = ("random", "rand", "randn", "gamma", "choice", "seed", "set_state", "uniform",
         "normal", "randint", "random_sample", "standard_normal", "permutation", "shuffle",
         "multivariate_normal", "standard_t", "exponential", "dirichlet", "multinomial")


class TapCap(RuntimeError):
    pass


class TapExhausted(RuntimeError):
    pass


class Tap:
    def __init__(self, log=False, cap=None, strict=False, callers=False):
        self.log_on = log
        self.cap = cap
        self.strict = strict           # raise when a served queue runs dry
        self.callers = callers
        self.counts = Counter()
        self.log = []
        self.reseeds = []              # (fn, caller, value)
        self.queues = {}
        self._orig = {}
        self.total = 0
        self.active = False

    # -- serving ----------------------------------------------------------
    def serve(self, fn, values):
        self.queues.setdefault(fn, deque()).extend(values)

    def _caller(self, depth=2):
        f = sys._getframe(depth)
        return f"{os.path.basename(os.path.dirname(f.f_code.co_filename))}/" \
               f"{os.path.basename(f.f_code.co_filename)}:{f.f_lineno}:{f.f_code.co_name}"

    def _wrap(self, name, orig):
        tap = self

        def w(*a, **k):
            tap.total += 1
            tap.counts[name] += 1
            if tap.cap is not None and tap.total > tap.cap:
                raise TapCap(f"np.random call cap {tap.cap} exceeded at {name}")
            if name in ("seed", "set_state"):
                val = a[0] if a else k.get("seed", None)
                if name == "set_state":
                    val = "<state>"
                tap.reseeds.append((name, tap._caller(), val if not isinstance(val, np.ndarray) else "<array>"))
                return orig(*a, **k)
            q = tap.queues.get(name)
            if q is not None:
                if q:
                    v = q.popleft()
                    if callable(v):
                        v = v(*a, **k)
                    if tap.log_on:
                        tap.log.append((name, tap._caller() if tap.callers else None, a, k, v, "served"))
                    return v
                if tap.strict:
                    raise TapExhausted(name)
            v = orig(*a, **k)
            if tap.log_on:
                tap.log.append((name, tap._caller() if tap.callers else None, a, k, v, "real"))
            return v
        w.__name__ = name
        w._tvf_tap = True
        return w

    def __enter__(self):
        for n in FUNCS:
            if hasattr(np.random, n):
                o = getattr(np.random, n)
                if getattr(o, "_tvf_tap", False):
                    raise RuntimeError("nested taps are not supported")
                self._orig[n] = o
                setattr(np.random, n, self._wrap(n, o))
        self.active = True
        return self

    def __exit__(self, *exc):
        for n, o in self._orig.items():
            setattr(np.random, n, o)
        self._orig.clear()
        self.active = False
        return False


def state_hash() -> str:
    import hashlib
    st = np.random.get_state()
    h = hashlib.sha1()
    h.update(st[1].tobytes())
    h.update(repr(st[2:]).encode())
    return h.hexdigest()[:20]

"""C18 - invalid configurations are rejected up front; valid ones always run.

Invalid: one-factor-at-a-time violations of each documented constraint; the constructor
must raise before the instrumented likelihood / prior transform has seen a single call.
Valid: covering arrays (pairwise quick / 3-wise thorough) over the constructor options;
each row runs in its own process under an iteration budget and must return with the C12
postconditions (reference MIS evidence and ESS recomputed from the stored history).
"""
from __future__ import annotations

import os
import shutil

import numpy as np

from tvf import attach, cover, farm, idblob, runs, targets
from tvf.env import Check, fmt_exc
from tvf.oracles import mis_ref

FACTORS = dict(
    kernel=["tpcn", "rwm"], resample=["mult", "syst"], clustering=[True, False], normalize=[True, False],
    cluster_every=[1, 2, 3, 5], n_max_clusters=[None, 1, 2, 3], split_threshold=[0.5, 1.0, 2.0],
    metric=["ess1", "ess2", "ess3.5", "vol0.5", "vol2"], steps=["default", "n1", "n3", "n2max2", "n1max50"],
    mode=["vec", "scalar", "blobs"], bc=["none", "periodic", "reflective", "mixed", "periodic2"], bctype=["list", "tuple"],
    pool=["none", "int1", "int2", "object"], save_every=[None, 1, 3], outfs=["same", "other"], n_dim=[1, 2, 4], n_particles=["default", 16, 50, 1],
)


class PoolObject:
    def map(self, f, xs):
        return [f(x) for x in xs]


def valid(row):
    if row["bc"] in ("mixed", "periodic2") and row["n_dim"] < 2:
        return False
    return True


def build_kwargs(row, tmp):
    d = row["n_dim"]
    t = targets.GaussBox(d, rho=0.5 if d > 1 else 0.0, half=6.0)
    mode = row["mode"]
    like = idblob.Likelihood(t, mode=mode, shared_counter=idblob.SHARED)
    pt = idblob.Transform(t)
    er, vv = 2.0, None
    m = row["metric"]
    if m.startswith("ess"):
        er = float(m[3:])
    else:
        vv = float(m[3:])
    ns, nm = {"default": (None, None), "n1": (1, None), "n3": (3, None), "n2max2": (2, 2), "n1max50": (1, 50)}[row["steps"]]
    per, ref = {"none": (None, None), "periodic": ([0], None), "reflective": (None, [d - 1]), "mixed": ([0], [d - 1]),
                "periodic2": ([0, 1], None)}[row["bc"]]
    # the same index sets as tuples (incl. empty ones for "no such coordinate").  numpy integer arrays are refused by the
    # constructor (its signature says List[int]) - a clean rejection before any likelihood call, so they are not offered as valid
    bt = row.get("bctype", "list")
    if bt == "tuple":
        per, ref = tuple(per or ()), tuple(ref or ())
    pool = {"none": None, "int1": 1, "int2": 2, "object": PoolObject()}[row["pool"]]
    kw = dict(prior_transform=pt, log_likelihood=like, n_dim=d, n_particles=None if row["n_particles"] == "default" else row["n_particles"],
              ess_ratio=er, volume_variation=vv, vectorize=(mode == "vec"), blobs_dtype=("float64" if mode == "blobs" else None),
              periodic=per, reflective=ref, pool=pool, clustering=row["clustering"], normalize=row["normalize"],
              cluster_every=row["cluster_every"], split_threshold=row["split_threshold"], n_max_clusters=row["n_max_clusters"],
              sample=row["kernel"], n_steps=ns, n_max_steps=nm, resample=row["resample"], output_dir=tmp, output_label="c18")
    return kw, t, like, pt


def valid_case(row, seed):
    from tempest import Sampler
    from tvf.checks.c08 import tmpdir
    tmp = None
    if row.get("outfs") == "other":
        tmp = tmpdir(other_fs=True)       # output directory on another filesystem than the system temp directory (tmpfs), if there is one
    other_fs_used = tmp is not None
    if tmp is None:
        tmp = tmpdir()
    out = dict(bad=[], iters=0, other_fs=int(other_fs_used))
    try:
        import multiprocessing as mp
        idblob.SHARED = mp.Value("q", 0)
        np.random.seed(seed)
        kw, t, like, pt = build_kwargs(row, tmp)
        sm_prev = None
        if row.get("startmethod"):
            # integer pools under the other process start methods (the default on macOS / Windows, and on Linux from Python 3.14)
            import multiprocess
            sm_prev = multiprocess.get_start_method(allow_none=True)
            multiprocess.set_start_method(row["startmethod"], force=True)
        try:
            s = Sampler(**kw)
        except Exception as e:
            out["bad"].append(("valid-config-rejected", f"constructor raised {type(e).__name__}: {e}"))
            return out
        N = s.n_particles
        n_total = 4 * N
        try:
            with attach.Hooks() as hk:
                attach.iteration_budget(hk, 400)
                s.run(n_total=n_total, progress=bool(seed % 2), save_every=row["save_every"])
        except attach.IterationBudgetExceeded:
            out["bad"].append(("no-termination", f"run(n_total={n_total}) did not terminate within 400 iterations (N={N})"))
            return out
        except Exception as e:
            tb = fmt_exc()
            where = [l.strip() for l in tb.splitlines() if "/tempest/" in l]
            loc = where[-1].split("/tempest/")[-1] if where else "?"
            out["bad"].append((f"valid-config-raises-{type(e).__name__}@{loc.split(',')[0].strip(chr(34))}", f"run raised {type(e).__name__}: {e}  [{loc}]"))
            return out
        H = runs.history(s)
        out["iters"] = len(H["beta"])
        uall = np.concatenate(H["u"])
        if np.any(uall < 0) or np.any(uall > 1) or not np.all(np.isfinite(uall)):
            out["bad"].append(("post-cube", f"{int(np.sum(np.any((uall < 0) | (uall > 1), axis=1)))} of {len(uall)} stored particles lie outside the unit hypercube "
                               f"(u range [{uall.min():.3f}, {uall.max():.3f}])"))
        beta = float(s.state.get_current("beta"))
        if not abs(1 - beta) < 1e-4:
            out["bad"].append(("post-beta", f"returned with beta={beta}"))
        _, _, lz, ess = mis_ref(H["logl"], H["beta"], H["logz"], 1.0)
        if float(ess) < n_total * (1 - 1e-9):
            out["bad"].append(("post-ess", f"returned with ESS {float(ess):.2f} < n_total={n_total}"))
        ev = float(s.evidence()[0])
        if not np.isfinite(ev) or abs(ev - float(lz)) > 1e-8 * (1 + abs(float(lz))):
            out["bad"].append(("post-evidence", f"evidence()={ev} vs reference {float(lz)}"))
        x, w, l = s.posterior()
        if not (np.all(np.isfinite(x)) and np.all(np.isfinite(w)) and abs(w.sum() - 1) < 1e-9):
            out["bad"].append(("post-posterior", "posterior() returned non-finite values or unnormalised weights"))
        calls = int(s.state.get_current("calls"))
        seen = int(idblob.SHARED.value)
        if calls != seen and not row.get("startmethod"):      # (spawned workers do not inherit the harness's shared counter)
            out["bad"].append(("calls-miscounted", f"calls={calls} but the likelihood saw {seen} points"))
        return out
    finally:
        if row.get("startmethod"):
            try:
                import multiprocess
                multiprocess.set_start_method(sm_prev or "fork", force=True)
            except Exception:
                pass
        shutil.rmtree(tmp, ignore_errors=True)


INVALID = [
    ("n_dim=0", dict(n_dim=0)), ("n_dim=-1", dict(n_dim=-1)), ("n_dim=2.5", dict(n_dim=2.5)), ("n_dim='2'", dict(n_dim="2")), ("n_dim=None", dict(n_dim=None)),
    ("n_particles=0", dict(n_particles=0)), ("n_particles=-5", dict(n_particles=-5)), ("n_particles=2.5", dict(n_particles=2.5)),
    ("n_particles='10'", dict(n_particles="10")), ("n_particles=16.0", dict(n_particles=16.0)),
    ("ess_ratio=0", dict(ess_ratio=0)), ("ess_ratio=-1", dict(ess_ratio=-1.0)), ("ess_ratio='2'", dict(ess_ratio="2")), ("ess_ratio=0.0", dict(ess_ratio=0.0)),
    ("volume_variation=0", dict(volume_variation=0)), ("volume_variation=-1", dict(volume_variation=-1.0)), ("volume_variation='x'", dict(volume_variation="x")),
    ("sample='hmc'", dict(sample="hmc")), ("sample=None", dict(sample=None)), ("sample='TPCN'", dict(sample="TPCN")),
    ("resample='strat'", dict(resample="strat")), ("resample=None", dict(resample=None)), ("resample='systematic'", dict(resample="systematic")),
    ("vectorize+blobs", dict(vectorize=True, blobs_dtype="float64")),
    ("periodic&reflective overlap", dict(periodic=[0, 1], reflective=[1])), ("overlap single", dict(periodic=[0], reflective=[0])),
    ("periodic out of range", dict(periodic=[2])), ("periodic negative", dict(periodic=[-1])), ("periodic float", dict(periodic=[0.5])),
    ("reflective out of range", dict(reflective=[5])), ("reflective negative", dict(reflective=[-2])), ("reflective str", dict(reflective=["0"])),
    ("periodic n_dim", dict(periodic=[0, 2])), ("reflective mixed bad", dict(reflective=[1, 7])),
]


def invalid_case(name, override, variant):
    from tempest import Sampler
    t = targets.GaussBox(2)
    like = idblob.Likelihood(t, mode="scalar" if override.get("blobs_dtype") is None and not override.get("vectorize") else "vec")
    pt = idblob.Transform(t)
    kw = dict(prior_transform=pt, log_likelihood=like, n_dim=2, n_particles=16)
    # second factor from a valid lattice row so that validation is exercised in context
    kw.update(variant)
    kw.update(override)
    try:
        s = Sampler(**kw)
    except Exception as e:
        called = like.n_points + pt.n_calls
        if called:
            return [("likelihood-called-before-rejection", f"{name}: rejected with {type(e).__name__} but only after {called} likelihood/transform calls")]
        return []
    called = like.n_points + pt.n_calls
    return [("invalid-config-accepted", f"{name}: Sampler({ {k: v for k, v in override.items()} }) was accepted (calls so far {called})")]


class _CallableLike:
    def __init__(self, lam):
        self.lam = lam

    def __call__(self, x):
        return -self.lam * float(np.sum(np.asarray(x) ** 2))

    def method(self, x):
        return self(x)


def _py_like(x, scale=1.0):
    return -scale * float(np.sum((np.asarray(x) - 0.5) ** 2))


CALLABLE_FORMS = ["itemgetter", "builtin-min", "builtin-max", "methodcaller-sum", "methodcaller-vec", "ufunc-reduce", "np-sum", "partial-python", "partial-builtin",
                  "callable-instance", "bound-method", "lambda", "np-vectorize"]
TRANSFORM_FORMS = ["lambda", "operator-pos", "np-array", "ufunc-positive", "bound-method"]


def callable_form_case(form, tform, opts, seed):
    """The likelihood / prior transform as the various kinds of callables Python offers (C-implemented ones have no introspectable
    signature, partials and callable instances have no __name__, ...): how the callable is implemented is not an option value."""
    import functools
    import operator
    from tempest import Sampler
    d = 3
    vec = False
    like = {"itemgetter": lambda: operator.itemgetter(0), "builtin-min": lambda: min, "builtin-max": lambda: max,
            "methodcaller-sum": lambda: operator.methodcaller("sum"), "ufunc-reduce": lambda: np.add.reduce, "np-sum": lambda: np.sum,
            "partial-python": lambda: functools.partial(_py_like, scale=3.0), "partial-builtin": lambda: functools.partial(min),
            "callable-instance": lambda: _CallableLike(2.0), "bound-method": lambda: _CallableLike(2.0).method, "lambda": lambda: (lambda x: -float(np.sum(x ** 2))),
            "np-vectorize": lambda: np.vectorize(_py_like, signature="(n)->()"),
            "methodcaller-vec": lambda: operator.methodcaller("sum", axis=1)}[form]()
    if form == "methodcaller-vec":
        vec = True

    class _T:
        def tr(self, u):
            return np.array(u)
    pt = {"lambda": lambda: (lambda u: u * 1.0), "operator-pos": lambda: operator.pos, "np-array": lambda: np.array, "ufunc-positive": lambda: np.positive,
          "bound-method": lambda: _T().tr}[tform]()
    out = dict(bad=[], iters=0)
    np.random.seed(seed)
    kw = dict(prior_transform=pt, log_likelihood=like, n_dim=d, n_particles=32, vectorize=vec, **opts)
    try:
        s = Sampler(**kw)
    except Exception as e:
        out["bad"].append(("valid-config-rejected", f"constructor raised {type(e).__name__}: {e} for a likelihood given as {form}, prior transform as {tform}, options {opts}"))
        return out
    try:
        with attach.Hooks() as hk:
            attach.iteration_budget(hk, 400)
            s.run(n_total=128, progress=bool(seed % 2))
    except Exception as e:
        out["bad"].append(("valid-config-raises", f"run() raised {type(e).__name__}: {e} for a likelihood given as {form}, prior transform as {tform}, options {opts}\n{fmt_exc()[-300:]}"))
        return out
    out["iters"] = int(s.state.get_history_length())
    beta = float(s.state.get_current("beta"))
    lz = float(s.evidence()[0])
    x, w, l = s.posterior()
    if not (abs(1 - beta) < 1e-4) or not np.isfinite(lz) or abs(float(np.sum(w)) - 1) > 1e-9 or np.any(x < 0) or np.any(x > 1):
        out["bad"].append(("valid-config-postcondition", f"likelihood as {form}, transform as {tform}: beta={beta}, logZ={lz}, sum(w)={float(np.sum(w))}"))
    return out


def run():
    ck = Check("C18")
    rng = ck.rng("lattice")
    rows = cover.covering(FACTORS, 3, rng, valid=valid, candidates=25)
    if not ck.quick:
        for extra in range(3):       # three more independently generated 3-wise arrays
            rows += cover.covering(FACTORS, 3, ck.rng("lattice", extra), valid=valid, candidates=25)
    tasks = [("tvf.checks.c18:valid_case", dict(row=r, seed=ck.subseed("row", i) % 2 ** 31), None) for i, r in enumerate(rows)]
    # integer pools under the spawn / forkserver process start methods
    base = dict(kernel="tpcn", resample="mult", clustering=False, normalize=True, cluster_every=1, n_max_clusters=None, split_threshold=1.0, metric="ess2", steps="n1",
                mode="scalar", bc="none", bctype="list", pool="int2", save_every=None, outfs="same", n_dim=2, n_particles=16)
    for j, smeth in enumerate(ck.pick(["spawn", "forkserver"], ["spawn", "forkserver", "spawn", "forkserver"])):
        tasks.append(("tvf.checks.c18:valid_case", dict(row=dict(base, startmethod=smeth, mode=["scalar", "blobs"][j % 2], kernel=["tpcn", "rwm"][(j // 2) % 2]),
                                                         seed=ck.subseed("startmethod", j) % 2 ** 31), None))
    for i, st, val in farm.run(tasks, timeout=600, jobs=12, progress="C18-valid"):
        row = tasks[i][1]["row"]
        if st == "timeout":
            ck.inconc(f"row {row}: wall-clock watchdog (not a verdict)")
            continue
        if st != "ok":
            ck.violation("valid-config-crashed-process", f"{row}: {st} {str(val)[-400:]}", dict(row=row))
            continue
        ck.case(dict(row=row), nontrivial=val["iters"] > 0)
        ck.event("valid configurations run to completion" if not val["bad"] else "valid configurations with a violation")
        if row.get("startmethod"):
            ck.event("valid configurations with an integer pool under the spawn / forkserver start method")
        if val.get("other_fs") and row.get("save_every"):
            ck.event("valid configurations with checkpoints written to a directory on another filesystem than the temp directory")
        for key, what in val["bad"]:
            ck.violation(key, f"{what}   row={row}", dict(row=row, seed=tasks[i][1]["seed"]))
    # the user's callables in every form Python offers
    optsets = [dict(), dict(sample="rwm", clustering=False, resample="syst"), dict(periodic=[0], reflective=[2]), dict(volume_variation=1.0, n_max_clusters=2)]
    ctasks = []
    for j, form in enumerate(CALLABLE_FORMS):
        for r in range(ck.pick(1, 3)):
            k = j + r * len(CALLABLE_FORMS)
            ctasks.append(("tvf.checks.c18:callable_form_case", dict(form=form, tform=TRANSFORM_FORMS[k % len(TRANSFORM_FORMS)], opts=optsets[k % len(optsets)],
                                                                     seed=ck.subseed("callable", k) % 2 ** 31), None))
    for i, st, val in farm.run(ctasks, timeout=600, jobs=12, progress="C18-callables"):
        kw = ctasks[i][1]
        if st == "timeout":
            ck.inconc(f"callable form {kw}: wall-clock watchdog (not a verdict)")
            continue
        if st != "ok":
            ck.violation("valid-config-crashed-process", f"{kw}: {st} {str(val)[-400:]}", dict(callable_form=kw))
            continue
        ck.case(dict(callable_form=kw), nontrivial=val["iters"] > 0)
        ck.event("valid configurations whose likelihood / prior transform is a builtin, operator object, ufunc method, partial, callable instance, bound method or lambda")
        for key, what in val["bad"]:
            ck.violation(key, what, dict(callable_form=kw))
    variants = [dict(), dict(sample="rwm", clustering=False), dict(resample="syst", ess_ratio=1.0), dict(n_max_clusters=2, normalize=False),
                dict(volume_variation=1.0), dict(volume_variation=0.3, ess_ratio=3.5), dict(periodic=[0]), dict(reflective=[1]), dict(periodic=[1], reflective=[0]),
                dict(blobs_dtype="float64"), dict(vectorize=True), dict(pool=2), dict(pool=PoolObject()), dict(cluster_every=3, n_steps=2, n_max_steps=2),
                dict(n_particles=None), dict(random_state=3, output_label="x")]
    for name, ov in INVALID:
        for vi, var in enumerate(variants):
            if any(k in var for k in ov):
                continue
            if "vectorize" in ov and "blobs_dtype" in var or ("blobs_dtype" in ov and var.get("vectorize")):
                continue
            try:
                bad = invalid_case(name, ov, var)
            except Exception:
                bad = [("harness", fmt_exc()[-300:])]
            ck.case(dict(invalid=name, variant=var))
            ck.event("invalid configurations offered to the constructor")
            for key, what in bad:
                ck.violation(key, what, dict(invalid=name, override=ov, variant=var))
    ck.tables["lattice_rows"] = len(rows)
    ck.tables["pairwise_coverage"] = cover.coverage(rows, FACTORS, 2)
    ck.tables["threeway_coverage"] = cover.coverage(rows, FACTORS, 3)
    ck.require_events("valid configurations run to completion", "invalid configurations offered to the constructor")
    return ck.finish(
        rule="valid: greedy 3-wise covering array (quick: one array, ~190 rows, measured coverage of feasible triples in tables; thorough: four arrays) over 16 constructor options (kernel, resampler, clustering, normalize, "
             "cluster_every, n_max_clusters, split_threshold, metric mode/ess_ratio, n_steps/n_max_steps, vec/scalar/blobs, boundary kinds, pool "
             "{None,1,2,object}, save_every, n_dim, n_particles incl. the default 2*n_dim), each row in its own process with a 400-iteration "
             "budget; invalid: 34 one-factor violations x 16 context variants (other metric mode, boundaries, blobs, vectorised, pools, cadence, defaults); non-trivial = the run executed at least one iteration",
        assumptions=["a wall-clock watchdog firing is inconclusive, never a violation"],
    )

"""C15 - weighted mixture and hierarchical clustering models satisfy their invariants.

Contract monitors on the real GaussianMixture ('full', 'diag') and
HierarchicalGaussianMixture driven with generated weighted data sets; the weight
replication clause is a metamorphic pair run with a fixed EM iteration count.
"""
from __future__ import annotations

import os

import numpy as np

from tvf import farm
from tvf.env import Check, fmt_exc


def gen_data(rng, nmax=1000):
    d = int(rng.integers(1, 7))
    n = int(rng.integers(2 * d, min(nmax, 120) + 1)) if rng.random() < 0.7 else int(rng.integers(120, nmax + 1))
    kind = str(rng.choice(["separated", "overlapping", "single", "duplicated", "near-degenerate", "unit-cube", "offset", "far-apart", "satellite"]))
    k = int(rng.integers(1, 4))
    if kind == "single":
        k = 1
    lab = rng.integers(0, k, n)
    # "far-apart": clusters 1e4..1e9 spreads from each other (second moments about a common origin cancel catastrophically)
    sep = {"separated": 8.0, "overlapping": 1.5, "far-apart": float(10 ** rng.uniform(4, 9))}.get(kind, 5.0)
    centers = rng.standard_normal((k, d)) * sep
    X = centers[lab] + rng.standard_normal((n, d)) * (0.3 + rng.random((1, d)))
    if kind == "duplicated":
        src = rng.integers(0, max(2, n // 4), n)
        X = X[src]
    elif kind == "near-degenerate":
        dirn = rng.standard_normal(d)
        X = np.outer(rng.standard_normal(n), dirn) + 1e-5 * rng.standard_normal((n, d)) + centers[lab] * (d > 1)
    elif kind == "satellite":
        # one or two blobs plus a far satellite of fewer points than dimensions (1 .. d-1 rows; d = 1: one row)
        ns_ = int(rng.integers(1, max(2, d)))
        X[:ns_] = 40.0 * (1 + np.arange(d) % 2) + 0.05 * rng.standard_normal((ns_, d))
    elif kind == "unit-cube":
        X = 1 / (1 + np.exp(-X / 4))
    elif kind == "offset":
        X = X + 10 ** rng.uniform(1, 3) * rng.choice([-1, 1], d)
    wk = str(rng.choice(["none", "dirichlet", "skewed", "integer"]))
    if wk == "none":
        w = None
    elif wk == "dirichlet":
        w = rng.dirichlet(np.full(n, 1.0))
    elif wk == "skewed":
        w = rng.dirichlet(np.full(n, 10 ** rng.uniform(-2, -0.5)))
        w = np.maximum(w, 1e-300)
    else:
        w = rng.integers(1, 5, n).astype(float)
    return X, w, dict(d=d, n=n, kind=kind, k=k, weights=wk)


def psd_ok(C, xmax2):
    """Positive semi-definite relative to the matrix's OWN size (a covariance of spread 1 inside a data set that spans 1e9 is
    not allowed an eigenvalue of -400), plus the rounding floor of any centred computation, eps^2 * max|x|^2."""
    C = np.asarray(C)
    floor = 1e-26 * xmax2
    if C.ndim == 1:
        return bool(np.all(C >= -1e-9 * max(float(np.max(np.abs(C))), 1e-300) - floor)), True
    own = max(float(np.max(np.abs(C))), 1e-300)
    sym = bool(np.allclose(C, C.T, rtol=1e-9, atol=1e-12 * own + floor))
    ev = np.linalg.eigvalsh(0.5 * (C + C.T))
    return bool(ev.min() >= -1e-9 * max(ev.max(), 1e-300) - floor), sym


def check_gmm(rng, X, w, desc):
    from tempest.cluster import GaussianMixture
    bad = []
    n, d = X.shape
    ct = str(rng.choice(["full", "diag"]))
    K = int(rng.integers(1, 4))
    seed = int(rng.integers(0, 2 ** 31))
    g = GaussianMixture(n_components=K, covariance_type=ct, random_state=seed, n_init=int(rng.choice([1, 2])))
    try:
        with np.errstate(all="ignore"):
            g.fit(X, sample_weight=None if w is None else w)
    except Exception as e:
        return [(f"gmm-exception-{type(e).__name__}", f"GaussianMixture({ct},K={K}).fit raised {e} on {desc}")], ct, K
    W = np.asarray(g.weights_)
    if W.shape != (K,) or np.any(~np.isfinite(W)) or np.any(W < 0) or abs(W.sum() - 1) > 1e-9:
        bad.append(("gmm-weights", f"component weights {W} (sum {W.sum()!r})"))
    lo, hi = X.min(0), X.max(0)
    rng_ = np.maximum(hi - lo, 1e-300)
    mag = np.maximum(np.abs(lo), np.abs(hi))
    for k in range(K):
        if not np.all(np.isfinite(g.means_[k])):
            bad.append(("gmm-mean-nonfinite", f"component {k} mean {g.means_[k]} (weight {W[k]:.3g})"))
            continue
        if W[k] > 1e-3:
            tol = 1e-6 * (mag + rng_)
            if np.any(g.means_[k] < lo - tol) or np.any(g.means_[k] > hi + tol):
                bad.append(("gmm-mean-outside", f"component {k} (weight {W[k]:.3g}) mean {g.means_[k]} outside data box [{lo},{hi}]"))
        C = g.covariances_[k]
        if not np.all(np.isfinite(C)):
            bad.append(("gmm-cov-nonfinite", f"component {k} covariance non-finite (weight {W[k]:.3g})"))
            continue
        ok, sym = psd_ok(C, float(np.max(np.abs(X)) ** 2))
        if not sym:
            bad.append(("gmm-cov-asymmetric", f"component {k} covariance not symmetric"))
        if not ok:
            bad.append(("gmm-cov-not-psd", f"component {k} covariance has a negative eigenvalue"))
    try:
        with np.errstate(all="ignore"):
            lab = g.predict(X)
        if lab.shape != (n,) or lab.min() < 0 or lab.max() >= K:
            bad.append(("gmm-predict-range", f"predict labels outside [0,{K})"))
        b = g.bic(X)
        if np.isnan(b):
            bad.append(("gmm-bic-nan", "bic is NaN"))
    except Exception as e:
        bad.append((f"gmm-predict-exception-{type(e).__name__}", f"predict/bic raised {e}"))
    return bad, ct, K


def check_replication(rng, X, desc):
    """Integer sample weights == replicated points (same EM steps: max_iter=k, tol=-inf)."""
    from tempest.cluster import GaussianMixture
    n, d = X.shape
    if n > 300:
        X = X[:300]
        n = 300
    wi = rng.integers(1, 4, n)
    zero_rows = 0
    if n >= 12 and rng.random() < 0.4:
        # some rows carry weight 0 (= the row is absent); a few of them lie far outside the bulk of the weighted rows
        X = X.copy()
        nz = int(rng.integers(1, max(2, n // 5)))
        zi = rng.choice(n, nz, replace=False)
        wi[zi] = 0
        far = zi[: max(1, nz // 2)]
        spread = float(np.max(np.ptp(X[wi > 0], axis=0))) or 1.0
        X[far] = X[far] + rng.choice([-1.0, 1.0], (len(far), d)) * spread * 10.0 ** rng.uniform(1, 6, (len(far), 1))
        zero_rows = nz
    desc["zero_weight_rows"] = zero_rows
    K = int(rng.integers(1, 3))
    ct = str(rng.choice(["full", "diag"]))
    iters = int(rng.integers(1, 6))
    seed = int(rng.integers(0, 2 ** 31))
    # several restarts: which one is kept must not depend on whether the weights are given as weights or as copies either
    n_init = int(rng.choice([1, 1, 3, 4]))
    if n_init > 1:
        K = int(rng.integers(2, 4))
        iters = int(rng.integers(3, 12))
    a = GaussianMixture(n_components=K, covariance_type=ct, random_state=seed, max_iter=iters, tol=-np.inf, n_init=n_init)
    b = GaussianMixture(n_components=K, covariance_type=ct, random_state=seed, max_iter=iters, tol=-np.inf, n_init=n_init)
    with np.errstate(all="ignore"):
        a.fit(X, sample_weight=wi.astype(float))
        b.fit(np.repeat(X, wi, axis=0))
    Xp = X[wi > 0]
    sc = max(1.0, float(np.max(np.abs(Xp))))
    import itertools
    best = None
    # with several restarts two of them may reach the same optimum with the components in another order, and which of the
    # two is kept is decided by the last bit of the bound: compare up to a permutation of the components
    for perm in (itertools.permutations(range(K)) if n_init > 1 else [tuple(range(K))]):
        pm = list(perm)
        heavy = (a.weights_ > 1e-3) | (b.weights_[pm] > 1e-3)      # a component of negligible weight has an arbitrary mean
        dm = float(np.max(np.abs(a.means_ - b.means_[pm])[heavy])) / sc if heavy.any() else 0.0
        dw = float(np.max(np.abs(a.weights_ - b.weights_[pm])))
        dc = float(np.max(np.abs(np.asarray(a.covariances_) - np.asarray(b.covariances_)[pm])[heavy])) / sc ** 2 if heavy.any() else 0.0
        if best is None or max(dm, dw, dc) < max(best):
            best = (dm, dw, dc)
    dm, dw, dc = best
    # data far from the origin carry fewer digits than their spread needs: eps*max|x|/min(std) is the relative resolution left
    prec = float(np.finfo(float).eps * np.max(np.abs(Xp)) / max(float(np.min(np.std(Xp, axis=0))), 1e-300))
    if max(dm, dw, dc) > (1e-6 if n_init == 1 else 1e-5) + 1e3 * prec:
        # k-means++ seeding picks the same *point* only if the draw does not land within rounding of a
        # cumulative-weight boundary; a different seed point is a different (legitimate) EM start
        return [("gmm-replication", f"integer weights vs replicated points differ: means {dm:.3g} weights {dw:.3g} cov {dc:.3g} ({ct},K={K},iters={iters},n_init={n_init},rows of weight 0: {zero_rows})")]
    return []


def check_hier(rng, X, w, desc):
    from tempest.cluster import HierarchicalGaussianMixture
    bad = []
    n, d = X.shape
    cap = rng.choice([None, 1, 2, 3])
    max_it = 1000 if cap is None else int(cap) - 1
    minp = None if cap is None else 4 * d
    if rng.random() < 0.3:
        minp = int(rng.integers(2, 3 * d + 2))
    if desc.get("kind") == "satellite":
        minp = int(rng.integers(1, max(2, d)))          # an explicit minimum below the dimension: tiny clusters are legal then
        max_it = 1000 if cap is None else max_it
    norm = bool(rng.random() < 0.5)
    thr = float(rng.choice([0.1, 0.5, 1.0, 3.0]))
    ct = "full" if rng.random() < 0.8 else "diag"
    h = HierarchicalGaussianMixture(n_init=1, max_iterations=max_it, min_points=minp, threshold_modifier=thr,
                                    covariance_type=ct, normalize=norm)
    cfg = dict(cap=None if cap is None else int(cap), min_points=minp, normalize=norm, thr=thr, ct=ct)
    # a model object that has been fitted before (the sampler refits one object every iteration), possibly on data of
    # another dimension, must behave like a fresh one
    reuse = bool(rng.random() < 0.5)
    if reuse:
        d0 = int(rng.choice([1, 1, 2, 3, d, max(1, d - 1)]))
        n0 = int(rng.integers(40, 160))
        X0 = np.where(rng.random((n0, 1)) < 0.5, -4.0, 4.0) + rng.standard_normal((n0, d0)) * 10 ** rng.uniform(-1, 1)
        cfg["reused_after_d"] = d0
        try:
            with np.errstate(all="ignore"):
                h.fit(X0)
        except Exception:
            pass
    st0 = np.random.get_state()
    try:
        with np.errstate(all="ignore"):
            h.fit(X, None if w is None else w)
    except Exception as e:
        return [(f"hier-exception-{type(e).__name__}", f"HierarchicalGaussianMixture.fit raised {type(e).__name__}: {e} on {desc} {cfg}")], cfg, 0
    K = int(h.n_clusters_)
    lab = np.asarray(h.labels_)
    if reuse:
        st1 = np.random.get_state()
        np.random.set_state(st0)
        h2 = HierarchicalGaussianMixture(n_init=1, max_iterations=max_it, min_points=minp, threshold_modifier=thr,
                                         covariance_type=ct, normalize=norm)
        try:
            with np.errstate(all="ignore"):
                h2.fit(X, None if w is None else w.copy())
            if int(h2.n_clusters_) != K or not np.array_equal(np.asarray(h2.labels_), lab):
                bad.append(("hier-fit-depends-on-earlier-fit", f"a model fitted before on {d0}-dimensional data finds K={K} (sizes {np.bincount(lab).tolist()}); "
                            f"a fresh model with the same parameters finds K={int(h2.n_clusters_)} (sizes {np.bincount(np.asarray(h2.labels_)).tolist()}) on {desc}"))
        except Exception as e:
            bad.append(("hier-fit-depends-on-earlier-fit", f"fresh model raised {type(e).__name__}: {e} where the re-used one did not"))
        np.random.set_state(st1)
    if lab.shape != (n,) or lab.min() < 0 or lab.max() >= K:
        bad.append(("hier-labels", f"training labels not in [0,{K}) or wrong length"))
        return bad, cfg, K
    if K > max_it + 1:
        bad.append(("hier-cap", f"K={K} exceeds cap {max_it + 1}"))
    mp = minp if minp is not None else 2 * d
    sizes = np.bincount(lab, minlength=K)
    if K > 1 and sizes.min() < mp:
        bad.append(("hier-min-points", f"accepted split left a child with {sizes.min()} < min_points={mp} (sizes {sizes.tolist()})"))
    if len(h.cluster_centers_) != K or len(h.cluster_covariances_) != K or len(h.cluster_weights_) != K:
        bad.append(("hier-arity", "centers/covariances/weights do not all have K entries"))
    lo_all, hi_all = X.min(0), X.max(0)
    span_all = np.maximum(hi_all - lo_all, 1e-300)
    for k in range(min(K, len(h.cluster_centers_), len(h.cluster_covariances_))):
        cen = np.asarray(h.cluster_centers_[k], float)
        cov = np.asarray(h.cluster_covariances_[k], float)
        if not np.all(np.isfinite(cen)) or not np.all(np.isfinite(cov)):
            bad.append(("hier-nonfinite", f"cluster {k}: non-finite centre / covariance"))
            continue
        pts = X[lab == k]
        if len(pts) >= d:
            tolb = 1e-6 * (np.abs(lo_all) + np.abs(hi_all) + span_all)
            if np.any(cen < pts.min(0) - tolb) or np.any(cen > pts.max(0) + tolb):
                bad.append(("hier-centre-outside", f"cluster {k}: centre {cen} outside the bounding box of its own {len(pts)} training points"))
        if ct == "full":     # (for 'diag' the hierarchical model stores a (1,d) array / a broadcast d x d product: not a stated invariant)
            ok, sym = psd_ok(cov, float(np.max(np.abs(X)) ** 2))
            if cov.shape != (d, d) or not sym:
                bad.append(("hier-cov-asymmetric", f"cluster {k}: covariance not a symmetric d x d matrix (normalize={norm})"))
            elif not ok:
                bad.append(("hier-cov-not-psd", f"cluster {k}: covariance has a negative eigenvalue (normalize={norm})"))
    cw = np.asarray(h.cluster_weights_)
    if np.any(cw < 0) or abs(cw.sum() - 1) > 1e-9:
        bad.append(("hier-weights", f"cluster weights {cw}"))
    # queries: training points, far away points, the box corners
    lo, hi = X.min(0), X.max(0)
    span = np.maximum(hi - lo, 1e-12)
    Q = [X[: min(n, 50)], lo + span * rng.random((20, d)), X[:1], lo + span * rng.uniform(-1e3, 1e3, (20, d)),
         rng.choice([-1.0, 1.0], (10, d)) * 10 ** rng.uniform(3, 100, (10, d))]
    if rng.random() < 0.06:
        # one very long query batch (the persistent pool of a long run is predicted in one call): not a multiple of any power of two
        nq = int(rng.choice([65537, 70001, 131073, 200003]))
        Q.append(lo + span * rng.random((nq, d)))
        cfg["long_query"] = nq
    for qi, q in enumerate(Q):
        try:
            with np.errstate(all="ignore"):
                p = h.predict(q)
        except Exception as e:
            bad.append((f"hier-predict-exception-{type(e).__name__}", f"predict raised {e} for query class {qi}"))
            continue
        p = np.asarray(p)
        if p.shape != (len(q),) or p.dtype.kind not in "iu" or p.min() < 0 or p.max() >= K:
            bad.append(("hier-predict-range", f"predict labels outside [0,{K}) for query class {qi}"))
        elif len(q) > 4096:
            # predict is a row-wise function: the label of a row does not depend on how many rows are predicted with it
            with np.errstate(all="ignore"):
                tail = np.asarray(h.predict(q[-777:]))
                head = np.asarray(h.predict(q[:500]))
            if not np.array_equal(tail, p[-777:]) or not np.array_equal(head, p[:500]):
                bad.append(("hier-predict-batch-dependent", f"predict on a batch of {len(q)} rows labels its {'last 777' if not np.array_equal(tail, p[-777:]) else 'first 500'} rows differently "
                            f"from predict on those rows alone ({int(np.sum(tail != p[-777:]))} differ)"))
        if qi < 4 or qi == 5:
            try:
                with np.errstate(all="ignore"):
                    pp = h.predict_proba(q)
                if pp.shape != (len(q), K) or np.any(~np.isfinite(pp)) or np.any(pp < 0) or np.max(np.abs(pp.sum(1) - 1)) > 1e-6:
                    bad.append(("hier-proba", f"predict_proba rows not normalised/finite for query class {qi}"))
            except Exception as e:
                bad.append((f"hier-proba-exception-{type(e).__name__}", f"predict_proba raised {e}"))
    return bad, cfg, K


def _batch(seed, start, count, nmax):
    os.environ["VERIF_SEED"] = str(seed)
    ck = Check("C15")
    res = []
    for i in range(start, start + count):
        rng = ck.rng("data", i)
        X, w, desc = gen_data(rng, nmax)
        if i % 4 == 3:
            X = np.asfortranarray(X)            # column-major data (e.g. a transposed chain array)
            desc["layout"] = "F"
        X_keep, w_keep = X.copy(), (None if w is None else w.copy())
        out = []
        try:
            b1, ct, K = check_gmm(rng, X, w, desc)
            out += b1
            desc["gmm"] = dict(ct=ct, K=K)
        except Exception:
            out.append(("exception", fmt_exc()))
        rep = False
        if i % 3 == 0:
            try:
                out += check_replication(rng, X, desc)
                rep = True
            except Exception:
                out.append(("exception-replication", fmt_exc()))
        try:
            b3, cfg, KK = check_hier(rng, X, w, desc)
            out += b3
            desc["hier"] = cfg
            desc["K_found"] = KK
        except Exception:
            out.append(("exception", fmt_exc()))
            KK = 0
        # (the fits above were handed the caller's own arrays; every later fit / predict of this case saw what they left behind)
        res.append((i, desc, out, rep, KK))
    return res


def run():
    ck = Check("C15")
    n = ck.pick(300, 5000)
    nmax = ck.pick(400, 1000)
    per = ck.pick(10, 25)
    tasks = [("tvf.checks.c15:_batch", dict(seed=ck.seed, start=s, count=min(per, n - s), nmax=nmax), None) for s in range(0, n, per)]
    ks = {}
    for i, st, val in farm.run(tasks, timeout=ck.pick(240, 1800), progress="C15"):
        if st != "ok":
            ck.inconc(f"batch {i}: {st} {str(val)[:300]}")
            continue
        for idx, desc, bad, rep, KK in val:
            ck.case(desc, nontrivial=desc.get("weights") != "none" or KK > 1)
            ck.event("GaussianMixture fit checked")
            ck.event("HierarchicalGaussianMixture fit checked")
            if rep:
                ck.event("weight-replication pair compared")
                ck.event("... of which some rows carry weight 0 and lie far outside the weighted rows", int(bool(desc.get("zero_weight_rows"))))
            if (desc.get("hier") or {}).get("long_query"):
                ck.event("predict / predict_proba on one batch of more than 65536 query points")
            if (desc.get("hier") or {}).get("reused_after_d") is not None:
                ck.event("hierarchical fits on a previously used model object compared with a fresh object")
                if desc["hier"]["reused_after_d"] != desc["d"]:
                    ck.event("... of which the earlier fit had another dimension")
            ks[KK] = ks.get(KK, 0) + 1
            for key, what in bad:
                ck.violation(key, what, dict(stream=["data", idx], case=desc))
    ck.tables["clusters_found_histogram"] = {str(k): v for k, v in sorted(ks.items())}
    if sum(v for k, v in ks.items() if k > 1) == 0:
        ck.inconc("no hierarchical fit produced more than one cluster: split/min_points/cap clauses unobserved")
    ck.require_events("GaussianMixture fit checked", "HierarchicalGaussianMixture fit checked", "weight-replication pair compared",
                      "hierarchical fits on a previously used model object compared with a fresh object", "... of which the earlier fit had another dimension")
    return ck.finish(
        rule="data sets from VERIF_SEED: d 1..6, n 2d..1000, separated/overlapping/single/duplicated/near-degenerate/unit-cube/offset "
             "clusters, weights none/Dirichlet/highly skewed/integer; GaussianMixture full and diag with K 1..3; hierarchical model with caps "
             "{None,1,2,3}, min_points, normalisation on/off, threshold modifiers; queries at training points, inside the box, 1e3 spans away and "
             "at magnitudes up to 1e100; non-trivial = weighted data or more than one cluster found",
        assumptions=["component means are judged only for weight > 1e-3 with tolerance 1e-6*(|box|+range) (the M-step divides by weight+1e-10)"],
    )


def replay(rec):
    os.environ["VERIF_SEED"] = str(rec["seed"])
    w = rec["witness"] or {}
    if "stream" in w:
        r = _batch(rec["seed"], w["stream"][1], 1, 400 if rec["tier"] == "quick" else 1000)
        print(r[0][2] or "held")
        return 1 if r[0][2] else 0
    return 2

"""C13 - likelihood evaluation strategy is transparent; calls are counted exactly.

One seed, one pointwise-identical likelihood, many evaluation schedules: vectorised, one
point at a time, pool-like objects that evaluate in reversed / randomly permuted order, a
real thread pool with injected per-point delays (completion order differs from submission
order), integer pools 1 and 2 (worker processes).  Histories must be bit-identical across
schedules and `calls` must equal the number of points the instrumented likelihood saw
(thread-safe / cross-process counter).
"""
from __future__ import annotations

import multiprocessing as mp
import time

import numpy as np

from tvf import attach, farm, idblob, runs
from tvf.env import Check, digest, fmt_exc


class ReversedPool:
    def map(self, f, xs):
        xs = list(xs)
        out = [None] * len(xs)
        for i in reversed(range(len(xs))):
            out[i] = f(xs[i])
        return out


class PermutedPool:
    def __init__(self, seed):
        self.rng = np.random.default_rng(seed)     # own generator: must not touch the global stream

    def map(self, f, xs):
        xs = list(xs)
        out = [None] * len(xs)
        for i in self.rng.permutation(len(xs)):
            out[i] = f(xs[i])
        return out


class ThreadedPool:
    """real threads, injected delays: completion order != submission order."""

    def __init__(self, n=4, seed=0):
        from multiprocessing.pool import ThreadPool
        self.n = n
        self.tp = ThreadPool(n)
        self.rng = np.random.default_rng(seed)
        self.completion = []

    def map(self, f, xs):
        xs = list(xs)
        delays = self.rng.random(len(xs)) * 2e-4

        def g(a):
            i, x = a
            time.sleep(delays[i])
            r = f(x)
            self.completion.append(i)
            return r
        return self.tp.map(g, list(enumerate(xs)), chunksize=1)

    def __getstate__(self):
        return {"n": self.n}

    def close(self):
        self.tp.terminate()


class FullAPIPool(ThreadedPool):
    """same threads + delays, but exposes the whole multiprocessing.Pool API; the *unordered* variants really
    return results in completion order (a library that prefers them must re-associate results itself)."""

    def imap(self, f, xs, chunksize=1):
        return iter(self.map(f, xs))

    def imap_unordered(self, f, xs, chunksize=1):
        xs = list(xs)
        delays = self.rng.random(len(xs)) * 2e-4
        import queue
        q = queue.Queue()

        def g(a):
            i, x = a
            time.sleep(delays[i])
            q.put(f(x))
        self.tp.map(g, list(enumerate(xs)), chunksize=1)
        return iter([q.get() for _ in xs])

    def map_async(self, f, xs, chunksize=None, callback=None, error_callback=None):
        res = self.map(f, xs)

        class R:
            def get(self, timeout=None):
                return res

            def wait(self, timeout=None):
                return None

            def ready(self):
                return True

            def successful(self):
                return True
        return R()

    def starmap(self, f, xs, chunksize=None):
        return self.map(lambda a: f(*a), xs)

    def apply_async(self, f, args=(), kwds=None, callback=None, error_callback=None):
        v = f(*args, **(kwds or {}))

        class R:
            def get(self, timeout=None):
                return v
        return R()

    @property
    def _processes(self):
        return self.n


class ExecutorPool:
    """concurrent.futures-style executor: submit() returns real Futures that complete out of order
    (injected delays, 4 threads); map() is the ordered Executor.map."""

    def __init__(self, n=4, seed=0):
        from concurrent.futures import ThreadPoolExecutor
        self.n = n
        self.ex = ThreadPoolExecutor(n)
        self.rng = np.random.default_rng(seed)
        self.completion = []
        self._max_workers = n

    def submit(self, f, *a, **k):
        delay = float(self.rng.random()) * 3e-4
        idx = len(self.completion) + 0

        def g():
            time.sleep(delay)
            r = f(*a, **k)
            self.completion.append(delay)
            return r
        return self.ex.submit(g)

    def map(self, f, *iterables, timeout=None, chunksize=1):
        futs = [self.submit(f, *args) for args in zip(*iterables)]
        return [fu.result() for fu in futs]

    def shutdown(self, wait=True, **k):
        self.ex.shutdown(wait=wait)

    def close(self):
        self.ex.shutdown(wait=False)

    def __getstate__(self):
        return {"n": self.n}


def make_tpe(n, seed):
    """a genuine concurrent.futures.ThreadPoolExecutor (isinstance of Executor, unlike ExecutorPool) whose submitted calls
    finish out of order: any branch a library keeps for Executor instances (submit/wait/as_completed) is reached."""
    from concurrent.futures import ThreadPoolExecutor

    class DelayedTPE(ThreadPoolExecutor):
        def __init__(self, n, seed):
            super().__init__(n)
            self._tvf_rng = np.random.default_rng(seed)
            self.completion = []

        def submit(self, f, *a, **k):
            delay = float(self._tvf_rng.random()) * 3e-4
            i = getattr(self, "_tvf_i", 0)
            self._tvf_i = i + 1

            def g():
                time.sleep(delay)
                r = f(*a, **k)
                self.completion.append(i)
                return r
            return super().submit(g)

        def close(self):
            self.shutdown(wait=False)
    return DelayedTPE(n, seed)


SCHEDULES = ["vec", "vec-ro", "vec-list", "scalar", "scalar-0d", "scalar-np64", "scalar-ld", "reversed", "permuted", "threads", "fullapi", "executor", "tpe", "int1", "int2", "mpobj"]


def one(cfg, schedule, seed):
    """Run cfg under one evaluation schedule.  Returns digests + counters."""
    c = runs.full(dict(cfg, seed=seed))
    blobs = c["mode"] in ("blobs", "blobview")
    bview = c["mode"] == "blobview"
    pool = None
    if schedule in ("vec", "vec-ro", "vec-list"):
        if blobs:
            return dict(skip="vectorised likelihood cannot return blobs (rejected by the configuration)")
        c["mode"] = "vec"
        c["pointwise"] = True
        if schedule == "vec-list":
            c["ret_type"] = "vec-list"
        if schedule == "vec-ro":
            # the vectorised likelihood owns its output memory: it returns a read-only view of one buffer that the next
            # call overwrites (compiled models, JAX arrays seen through numpy)
            c["ro_buffer"] = True
    else:
        c["mode"] = "blobview" if bview else "blobs" if blobs else "scalar"
        if schedule.startswith("scalar-"):
            c["ret_type"] = schedule.split("-")[1]      # the pointwise value as 0-d array / np.float64 / np.longdouble
        pool = {"scalar": None, "scalar-0d": None, "scalar-np64": None, "scalar-ld": None, "reversed": ReversedPool(), "permuted": PermutedPool(seed + 5), "threads": ThreadedPool(4, seed + 7), "fullapi": FullAPIPool(3, seed + 9), "executor": ExecutorPool(4, seed + 11), "tpe": None, "mpobj": None,
                "int1": 1, "int2": 2}[schedule]
    if schedule == "tpe":
        pool = make_tpe(4, seed + 13)
    c["pool"] = pool
    idblob.SHARED = mp.Value("q", 0)
    if schedule == "mpobj":
        # a worker-process pool OBJECT created by the caller (the documented way of using multiprocess / schwimmbad pools);
        # created after the shared counter so that the forked workers inherit it
        import multiprocess
        pool = c["pool"] = multiprocess.Pool(2)
    np.random.seed(seed)
    try:
        s, t, like, pt = runs.build(c)
        like.keep_log = False
        with attach.Hooks() as hk:
            attach.iteration_budget(hk, 300)
            s.run(n_total=c["n_total"], progress=runs.prog(c))
    except Exception as e:
        return dict(error=f"{type(e).__name__}: {e}", trace=fmt_exc()[-500:])
    finally:
        if isinstance(pool, (ThreadedPool, ExecutorPool)) or schedule == "tpe":
            pool.close()
        if schedule == "mpobj":
            pool.terminate()
            pool.join()
    H = runs.history(s)
    core = {k: H[k] for k in ("u", "x", "logl", "beta", "logz", "ess", "iter", "steps")}
    if bview:
        # the blob is the likelihood's argument: a deterministic function of the point, so it belongs to the compared history
        core["blobs"] = H["blobs"]
        nb = sum(1 for bx, xx in zip(H["blobs"], H["x"]) if np.asarray(bx).tobytes() != np.ascontiguousarray(xx).tobytes())
        core["blobs_are_x"] = nb == 0
    else:
        nb = 0
    x, w, l = s.posterior(trim_importance_weights=False)
    seen = int(idblob.SHARED.value)
    reorder = 0
    if isinstance(pool, ThreadedPool) or schedule == "tpe":
        comp = pool.completion
        reorder = int(sum(1 for a, b in zip(comp, comp[1:]) if b < a))
    return dict(dtypes=(sorted(like.keep_dtypes) if (not isinstance(pool, int) or pool == 1) and schedule != "mpobj" else None),
                dg=digest(core), post=digest(x, w, l), logz=float(s.evidence()[0]), calls=int(s.state.get_current("calls")),
                calls_hist=[int(v) for v in H["calls"]], seen=seen, n_iter=len(H["beta"]), reorder=reorder, blob_mismatch=nb, bview=int(bview))


def group(cfg, seed, schedules):
    res = {}
    for sc in schedules:
        res[sc] = one(cfg, sc, seed)
    return res


def run():
    ck = Check("C13")
    cfgs = [dict(target="gauss2", kernel="tpcn", clustering=False, mode="scalar", N=32, n_total=96),
            dict(target="bimodal", kernel="rwm", clustering=True, mode="blobs", N=32, n_total=96),
            dict(target="expface", kernel="tpcn", clustering=True, mode="scalar", N=24, n_total=72, resample="syst"),
            dict(target="vonmises", kernel="rwm", clustering=False, mode="blobs", N=24, n_total=72, volume_variation=1.0)]
    cfgs += [dict(target="support", tkw=dict(f=0.6), kernel="rwm", clustering=False, mode="scalar", N=32, n_total=96, ess_ratio=3.0)]
    # the likelihood takes extra positional and keyword arguments (log_likelihood_args / log_likelihood_kwargs)
    # prior transforms that return single-precision / extended-precision points: every strategy hands the likelihood the same points
    cfgs += [dict(target="gauss2", kernel="rwm", clustering=False, mode="scalar", N=24, n_total=72, xdtype="float32"),
             dict(target="expface", kernel="tpcn", clustering=False, mode="scalar", N=24, n_total=72, xdtype="longdouble")]
    # the likelihood returns its own argument as the blob (a reference to whatever array the strategy handed it)
    cfgs += [dict(target="gauss2", kernel="tpcn", clustering=False, mode="blobview", N=24, n_total=72),
             dict(target="bimodal", kernel="rwm", clustering=True, mode="blobview", N=24, n_total=72, progress=True)]
    cfgs += [dict(target="gauss2", kernel="tpcn", clustering=True, mode="scalar", N=32, n_total=96, like_args=True),
             dict(target="bimodal", kernel="rwm", clustering=False, mode="blobs", N=24, n_total=72, like_args=True)]
    if not ck.quick:
        cfgs += [dict(target="support", tkw=dict(f=0.5), kernel="tpcn", clustering=False, mode="scalar", N=32, n_total=96),
                 dict(target="gauss4", kernel="tpcn", clustering=True, mode="blobs", N=40, n_total=120, cluster_every=2)]
    nseeds = ck.pick(2, 8)
    tasks = []
    # more than 1024 particles through the vectorised likelihood (block-wise evaluation paths): results as for pointwise evaluation,
    # and every point the likelihood receives is counted exactly once
    bigcfg = dict(target="gauss2", kernel="tpcn", clustering=False, mode="scalar", N=1100, n_total=2200)
    for r in range(ck.pick(1, 3)):
        tasks.append(("tvf.checks.c13:group", dict(cfg=dict(bigcfg, N=[1100, 2049, 1025][r]), seed=ck.subseed("big", r) % 10 ** 6, schedules=["vec", "vec-ro", "scalar"]), None))
    for ci, cfg in enumerate(cfgs):
        for r in range(nseeds):
            sch = SCHEDULES if (r == 0 or not ck.quick or cfg.get("like_args")) else SCHEDULES[:13]
            tasks.append(("tvf.checks.c13:group", dict(cfg=cfg, seed=ck.subseed("s", ci, r) % 10 ** 6, schedules=sch), None))
    for i, st, val in farm.run(tasks, timeout=1200, jobs=8, progress="C13"):
        kw = tasks[i][1]
        if st == "timeout":
            ck.inconc(f"{kw['cfg']}: watchdog")
            continue
        if st != "ok":
            ck.violation("group-crashed", f"{kw['cfg']}: {st} {str(val)[-400:]}", kw)
            continue
        ref = None
        for sc, r in val.items():
            if "skip" in r:
                continue
            if "error" in r:
                key = {"int1": "int-pool-1-raises", "int2": "int-pool-raises"}.get(sc, f"schedule-{sc}-raises")
                ck.violation(key, f"evaluation mode {sc}: run raised {r['error']}", dict(cfg=kw["cfg"], seed=kw["seed"], schedule=sc))
                continue
            ck.case(dict(cfg=kw["cfg"], schedule=sc, seed=kw["seed"]), nontrivial=r["n_iter"] > 2)
            ck.event(f"runs under schedule {sc}")
            ck.event("likelihood points counted by the instrumented likelihood", r["seen"])
            if sc == "threads":
                ck.event("out-of-order completions observed in the thread pool", r["reorder"])
            ck.event("runs whose blob is the likelihood's own argument", r.get("bview", 0))
            if r.get("blob_mismatch"):
                ck.violation("blob-not-of-point", f"schedule {sc}: the likelihood returns its argument as the blob, but {r['blob_mismatch']} stored batches hold blobs that differ "
                             f"from the stored points (what a strategy hands the likelihood stays referenced by the blob)", dict(cfg=kw["cfg"], seed=kw["seed"], schedule=sc))
            if r["calls"] != r["seen"]:
                ck.violation("calls-miscounted", f"schedule {sc}: state 'calls' = {r['calls']} but the likelihood was evaluated at {r['seen']} points "
                             f"(per-iteration calls {r['calls_hist'][:6]}...)", dict(cfg=kw["cfg"], seed=kw["seed"], schedule=sc))
            if r.get("dtypes") is not None and ref is not None and ref[1].get("dtypes") is not None and r["dtypes"] != ref[1]["dtypes"]:
                ck.violation("schedule-changes-points", f"schedule {sc} hands the likelihood points of dtype {r['dtypes']}, schedule {ref[0]} of dtype {ref[1]['dtypes']} "
                             f"(the prior transform returns {kw['cfg'].get('xdtype', 'float64')}): what the likelihood sees depends on the evaluation strategy",
                             dict(cfg=kw["cfg"], seed=kw["seed"], schedule=sc))
            if ref is None:
                ref = (sc, r)
            elif r["dg"] != ref[1]["dg"] or r["post"] != ref[1]["post"] or r["logz"] != ref[1]["logz"]:
                ck.violation("schedule-changes-result", f"same seed, pointwise identical likelihood: schedule {sc} gives logZ {r['logz']!r} / {r['n_iter']} iterations, "
                             f"schedule {ref[0]} gives {ref[1]['logz']!r} / {ref[1]['n_iter']}", dict(cfg=kw["cfg"], seed=kw["seed"], schedule=sc))
    need = ["runs under schedule vec", "runs under schedule vec-ro", "runs under schedule scalar", "runs under schedule reversed", "runs under schedule permuted",
            "runs under schedule threads", "runs under schedule fullapi", "runs under schedule executor", "runs under schedule tpe", "out-of-order completions observed in the thread pool"]
    ck.require_events(*need)
    return ck.finish(
        rule="configurations x seeds x evaluation schedules {vectorised (row-by-row identical function), scalar, reversed-order pool object, "
             "randomly permuted pool object (own RNG), ThreadPool(4) with injected per-point delays, executor-like object, genuine concurrent.futures.ThreadPoolExecutor, integer pools 1 and 2, caller-made multiprocess.Pool object}; histories, posterior "
             "and evidence compared by sha256 across schedules; 'calls' compared with a cross-process evaluation counter; non-trivial = more than 2 iterations",
        assumptions=["blobs on/off are compared within their own group (blob ids depend on evaluation order by construction)"],
    )

"""C06 - resampling returns exactly n valid indices and is unbiased.

Systematic: the random offset u0 is an *input* (served through the RNG tap); for each
(n, w) the real routine is driven at every breakpoint of the comb +-1ulp, at every cell
midpoint, at 0 and at 1-ulp -- the whole interval via its finite partition -- and each
result is validated by oracles.comb_check; expected copy counts are integrated over cells.
Multinomial: structural checks per draw plus pooled counts (two-stage z rule).
Paths: tools.systematic_resample, Resampler.run on a synthetic state manager (both
schemes, with and without blobs), Sampler.posterior(resample=True).
"""
from __future__ import annotations

import os

import numpy as np

from tvf import farm
from tvf.env import Check, fmt_exc
from tvf.oracles import comb_breakpoints, comb_check, LD
from tvf.tap import Tap

ONE_M = float(np.nextafter(1.0, 0.0))
SQRTEPS = float(np.sqrt(np.finfo(float).eps))


def gen_weights(rng, nmax):
    r0 = rng.random()
    m = int(rng.integers(1, 60)) if r0 < 0.8 else int(rng.integers(60, 400)) if r0 < 0.97 else int(rng.integers(3000, 12000))
    kind = rng.choice(["dirichlet", "zeros", "dominant", "equal", "tempering", "tiny-tail"])
    if kind == "dirichlet":
        w = rng.dirichlet(np.full(m, 10 ** rng.uniform(-1.5, 1.0)))
    elif kind == "zeros":
        w = rng.dirichlet(np.full(m, 0.5))
        z = rng.random(m) < 0.4
        if rng.random() < 0.5:
            z[0] = True
        if rng.random() < 0.5:
            z[-1] = True
        if z.all():
            z[rng.integers(m)] = False
        w = np.where(z, 0.0, w)
    elif kind == "dominant":
        w = rng.dirichlet(np.ones(m)) * 1e-9
        w[rng.integers(m)] = 1.0
    elif kind == "equal":
        w = np.ones(m)
    elif kind == "tempering":
        w = np.exp(-rng.exponential(10 ** rng.uniform(0, 2), m))
    else:
        w = rng.dirichlet(np.ones(m))
        w[-max(1, m // 3):] *= 1e-17
    w = np.maximum(w, 0.0)
    w = w / w.sum()
    w = np.where(w < 1e-300, 0.0, w)
    w = w / w.sum()
    # sums off by delta within the tolerance the routine accepts (no renormalisation)
    delta = float(rng.choice([0.0, 0.0, 1e-15, -1e-15, 1e-12, -1e-12, 1e-9, -1e-9, 1.4e-8, -1.4e-8]))
    w = w * (1.0 + delta)
    n = int(rng.integers(1, nmax + 1))
    if rng.random() < 0.15:
        n = m
    return n, w, str(kind), delta


def offsets(n, w):
    bps = comb_breakpoints(n, w)
    if len(bps) > 300:      # very long weight vectors: a strided subset of the breakpoints (incl. the first and last few)
        idx = sorted(set(list(range(5)) + list(range(len(bps) - 5, len(bps))) + list(np.linspace(0, len(bps) - 1, 200).astype(int))))
        bps = [bps[i] for i in idx]
    pts = {0.0, ONE_M, 0.5}
    prev = 0.0
    for b in bps:
        pts.add(b)
        pts.add(float(np.nextafter(b, 0.0)) if b > 0 else 0.0)
        pts.add(float(np.nextafter(b, 1.0)) if b < ONE_M else ONE_M)
        pts.add(0.5 * (prev + b))
        prev = b
    pts.add(0.5 * (prev + 1.0))
    return sorted(p for p in pts if 0.0 <= p < 1.0), bps


def drive_systematic(n, w):
    """Returns (violations, n_offsets, n_cells)."""
    from tempest.tools import systematic_resample
    bad = []
    us, bps = offsets(n, w)
    cells = [0.0] + list(bps) + [1.0]
    w_in = w.copy()
    # exact expected counts: integrate over cells using the midpoint's index vector
    exp_counts = np.zeros(len(w), dtype=LD)
    mids = {}
    for u0 in us:
        with Tap(cap=10) as tap:
            tap.serve("random", [u0])
            try:
                idx = systematic_resample(n, w)
            except Exception as e:
                bad.append((f"exception-{type(e).__name__}", f"systematic_resample(n={n}) raised {type(e).__name__}: {e} at u0={u0!r} "
                            f"(sum(w)-1={float(np.sum(w.astype(LD)) - 1):.3g})", dict(u0=u0)))
                if len(bad) > 6:
                    break
                continue
            if tap.counts["random"] != 1:
                return [("tap-miss", "np.random.random was not called exactly once", None)], 0, 0
        for cl, det in comb_check(n, w, u0, idx):
            bad.append((f"syst-{cl}", f"n={n} u0={u0!r}: {det}", dict(u0=u0)))
        mids[u0] = idx
    if w.tobytes() != w_in.tobytes():
        bad.append(("input-mutated", "weights modified in place", None))
    # the same weights handed over in other container forms (read-only array, strided view, list, tuple): same comb
    nforms = 0
    if not bad and mids:
        keys = list(mids)
        wide = np.zeros(3 * len(w))
        wide[1::3] = w
        ro = w.copy()
        ro.setflags(write=False)
        forms = [("read-only array", ro), ("strided view", wide[1::3]), ("list", [float(v) for v in w]), ("tuple", tuple(float(v) for v in w))]
        for fi, (fname, wf) in enumerate(forms):
            u0 = keys[(fi * 7 + len(w)) % len(keys)]
            with Tap(cap=10) as tap:
                tap.serve("random", [u0])
                try:
                    idx = np.asarray(systematic_resample(n, wf))
                except Exception as e:
                    bad.append(("weights-container-form", f"systematic_resample(n={n}) with the weights as a {fname} raised {type(e).__name__}: {e}", dict(u0=u0)))
                    continue
            nforms += 1
            if idx.shape != np.shape(mids[u0]) or not np.array_equal(idx, mids[u0]):
                bad.append(("weights-container-form", f"n={n} u0={u0!r}: weights as a {fname} give another index vector than the same weights as a plain array", dict(u0=u0)))
    drive_systematic.forms = getattr(drive_systematic, "forms", 0) + nforms
    if not bad and len(comb_breakpoints(n, w)) <= 300:
        for a, b in zip(cells[:-1], cells[1:]):
            mid = 0.5 * (a + b)
            if mid in mids:
                exp_counts += LD(b - a) * np.bincount(mids[mid], minlength=len(w))
        s = np.sum(w.astype(LD))
        err = float(np.max(np.abs(exp_counts - n * w.astype(LD) / s)))
        if err > n * 1e-6 + 1e-9:
            i = int(np.argmax(np.abs(exp_counts - n * w / float(s))))
            bad.append(("syst-biased", f"E[copies of {i}] = {float(exp_counts[i]):.9g} but n*w = {float(n * w[i] / s):.9g}", None))
    return bad, len(us), len(cells) - 1


def one_comb(n, w, idx):
    """None if some single offset u0 in [0,1) produces the index vector idx, else a description."""
    s_ = np.sum(w.astype(LD))
    c = np.cumsum(w.astype(LD) / s_)
    cprev = np.concatenate([[LD(0)], c[:-1]])
    idx = np.sort(np.asarray(idx))
    k = np.arange(n, dtype=LD)
    tol = LD(n) * (abs(LD(s_) - 1) + LD(1e-12)) + LD(1e-9)
    lo = float(np.max(n * cprev[idx] - k) - tol)
    hi = float(np.min(n * c[idx] - k) + tol)
    lastpos = int(np.flatnonzero(w > 0)[-1])
    if idx[-1] == lastpos:
        m_ = idx != lastpos
        hi = float(np.min((n * c[idx] - k)[m_]) + tol) if m_.any() else 1.0
    if lo > hi or hi < 0 or lo > 1:
        cnt = np.bincount(idx, minlength=len(w))
        nw = n * w / float(s_)
        j = int(np.argmax(np.abs(cnt - nw)))
        return f"no single offset u0 produces the selected rows (feasible interval [{lo:.6g}, {hi:.6g}]); e.g. row {j}: {int(cnt[j])} copies for n*w={float(nw[j]):.6g}"
    return None


class _IsolatingClusterer:
    """Two clusters; cluster 1 is a tiny neighbourhood of one pool row (a mode represented by a single particle)."""

    def __init__(self, u0):
        self.u0 = float(u0)
        self.n_clusters_ = 2
        self.cluster_centers_ = np.array([[0.5, 0.5], [float(u0), 0.5]])      # attributes of the library's own clusterer
        self.cluster_weights_ = np.array([0.9, 0.1])

    def predict(self, u):
        return (np.abs(np.asarray(u)[:, 0] - self.u0) < 1e-9).astype(int)


def drive_seeded(rng, n, w):
    """systematic_resample(n, w, random_state=k): whatever offset a seeded call uses, the result must be ONE comb (all teeth
    share the offset), hence floor/ceil copies; equal seeds give equal results."""
    from tempest.tools import systematic_resample
    bad = []
    s = np.sum(w.astype(LD))
    c = np.cumsum(w.astype(LD) / s)
    cprev = np.concatenate([[LD(0)], c[:-1]])
    seen = set()
    seeds = [0, 1, 2, int(rng.integers(3, 2 ** 31 - 1)), int(rng.integers(3, 1000))]
    st0 = np.random.get_state()
    try:
        for rs in seeds:
            try:
                idx = np.asarray(systematic_resample(n, w.copy(), random_state=rs))
                idx2 = np.asarray(systematic_resample(n, w.copy(), random_state=rs))
            except Exception as e:
                bad.append((f"seeded-exception-{type(e).__name__}", f"systematic_resample(n={n}, random_state={rs}) raised {e}", None))
                break
            if idx.shape != idx2.shape or not np.array_equal(idx, idx2):
                bad.append(("seeded-call-not-reproducible", f"random_state={rs}: two calls return different index vectors", None))
            if idx.shape != (n,) or idx.dtype.kind not in "iu" or idx.min() < 0 or idx.max() >= len(w):
                bad.append(("syst-length", f"random_state={rs}: shape {idx.shape}, dtype {idx.dtype}", None))
                break
            k = np.arange(n, dtype=LD)
            tol = LD(n) * (abs(LD(s) - 1) + LD(1e-12)) + LD(1e-9)
            lo = float(np.max(n * cprev[idx] - k) - tol)
            hi = float(np.min(n * c[idx] - k) + tol)
            lastpos = int(np.flatnonzero(w > 0)[-1])
            if idx[-1] == lastpos:      # teeth beyond the last positive weight may clamp to it
                m_ = idx != lastpos
                hi = float(np.min((n * c[idx] - k)[m_]) + tol) if m_.any() else 1.0
            if lo > hi or hi < 0 or lo > 1:
                cnt = np.bincount(idx, minlength=len(w))
                nw = n * w / float(s)
                j = int(np.argmax(np.abs(cnt - nw)))
                bad.append(("seeded-call-not-a-comb", f"random_state={rs}, n={n}: no single offset u0 produces the returned indices (feasible u0 interval "
                            f"[{lo:.6g}, {hi:.6g}]); e.g. index {j}: {int(cnt[j])} copies for n*w={float(nw[j]):.6g}", dict(random_state=rs)))
                break
            u0 = min(max(0.5 * (max(lo, 0.0) + min(hi, 1.0)), 0.0), 1 - 1e-16)
            for cl, det in comb_check(n, w, u0, idx):
                if cl in ("copies", "zero-weight-drawn", "monotone", "range", "length"):
                    bad.append((f"syst-{cl}", f"random_state={rs}, n={n}: {det}", dict(random_state=rs)))
            seen.add(idx.tobytes())
    finally:
        np.random.set_state(st0)
    return bad, len(seeds)


class _FakeClusterer:
    def predict(self, u):
        return np.zeros(len(u), dtype=int)


def drive_resampler(rng, n, w, scheme, blobs):
    """Resampler.run on a synthetic state manager: whole records, exactly n rows."""
    from tempest.state_manager import StateManager
    from tempest.steps.resample import Resampler
    bad = []
    m = len(w)
    sm = StateManager(2)
    cuts = sorted(set(rng.integers(1, m, size=min(3, max(0, m - 1))).tolist())) if m > 1 else []
    parts = np.split(np.arange(m), cuts)
    for p in parts:
        u = np.stack([p / max(m, 1) * 0.999, (p % 7) / 7.0], axis=1)
        upd = dict(u=u, x=10 * u + 1, logl=-p.astype(float), beta=0.5, logz=0.0)
        if blobs:
            upd["blobs"] = p.astype(float) + 0.5
        sm.update_current(upd)
        sm.commit_current_to_history()
    # any positive temperature (the first annealing step of a sharply peaked problem is ~1e-5 or smaller) must be resampled
    sm.set_current("beta", float(rng.choice([5e-324, 1e-300, 1e-12, 1e-7, 1e-5, 9.9e-5, 1e-3, 0.5, 1 - 1e-9, 1.0])))
    wn = w / w.sum()
    clu, clustering = None, False
    if rng.random() < 0.5 and m > 1:
        # clustering on, and one pool row (the one whose expected number of copies is closest to one) is a cluster of its own:
        # which rows are selected must not depend on the labels
        j_iso = int(np.argmin(np.abs(n * wn - 1.0) + (wn == 0) * 10))
        clu, clustering = _IsolatingClusterer(j_iso / max(m, 1) * 0.999), True
    used = bool(rng.random() < 0.4)
    if used:
        # the Resampler (and its state manager) has already resampled ANOTHER pool; then the history is replaced by the pool that
        # is judged (a checkpoint of another run loaded into a live sampler).  Decoy rows are recognisable: logL <= -10000.
        sm_real = sm
        sm = StateManager(2)
        nb = len(parts) - int(rng.integers(0, 2)) if len(parts) > 1 else 1       # as many batches as the real pool, or one fewer
        md = 0
        for b in range(nb):
            k_ = int(rng.integers(2, 12))
            pd_ = np.arange(md, md + k_)
            ud = np.stack([pd_ / 200.0, np.full(k_, 0.5)], axis=1)
            upd = dict(u=ud, x=10 * ud + 1, logl=-(pd_.astype(float) + 10000.0), beta=0.5, logz=0.0)
            if blobs:
                upd["blobs"] = pd_.astype(float) + 10000.5
            sm.update_current(upd)
            sm.commit_current_to_history()
            md += k_
        sm.set_current("beta", 0.5)
    rs = Resampler(sm, n_particles=n, resample=scheme, clusterer=clu, clustering=clustering, have_blobs=blobs)
    try:
        if used:
            rs.run(np.ones(md) / md)
            sm.update_from_dict(sm_real.to_dict())
            sm.set_current("beta", float(sm_real.get_current("beta")))
        # one resampling step = one draw: the systematic scheme asks for one uniform, the multinomial scheme for one batch of indices.
        # (A step that looks at its draw and draws again conditions the result on the draw.)
        with Tap(log=True, cap=None) as tapr:
            rs.run(wn.copy())
        ndraw = {k_: int(v_) for k_, v_ in tapr.counts.items() if v_}
    except Exception as e:
        return [(f"resampler-exception-{type(e).__name__}", f"Resampler.run({scheme}) raised {e}", None)]
    if sum(ndraw.values()) != 1:
        bad.append(("resampler-draws-again", f"Resampler.run({scheme}) made the random draws {ndraw} for one resampling step (one call expected, whichever numpy routine); "
                    f"largest n*w = {float(n * wn.max()):.3f} of n = {n}", None))
    cur = sm.get_current()
    ids = np.rint(-cur["logl"]).astype(int)
    if cur["u"].shape != (n, 2) or cur["logl"].shape != (n,):
        bad.append(("resampler-length", f"{scheme}: got {cur['u'].shape} rows for n={n}", None))
        return bad
    if ids.min() < 0 or ids.max() >= m:
        bad.append(("resampler-range", "a selected row is not a row of the pool the weights refer to" + (" (it belongs to the pool this Resampler had resampled before "
                    "the history was replaced)" if ids.max() >= 10000 else ""), None))
        return bad
    if np.any(wn[ids] == 0):
        bad.append(("zero-weight-drawn", f"{scheme}: a zero-weight pool row was selected", None))
    if scheme == "syst":
        msg = one_comb(n, wn, ids)
        if msg:
            bad.append(("resampler-not-a-comb", f"Resampler.run(syst, clustering={clustering}): {msg}", None))
    if clustering and cur.get("assignments") is not None:
        exp_lab = clu.predict(cur["u"])
        if not np.array_equal(np.asarray(cur["assignments"]), exp_lab):
            bad.append(("resampler-assignments", "assignments are not the clusterer's labels of the selected rows", None))
    okrow = np.allclose(cur["u"][:, 0], ids / max(m, 1) * 0.999, atol=0) and np.array_equal(cur["x"], 10 * cur["u"] + 1)
    if blobs:
        okrow = okrow and np.array_equal(cur["blobs"], ids + 0.5)
    if not okrow:
        bad.append(("resampler-record-split", f"{scheme}: u/x/logl/blobs rows were not moved together", None))
    return bad


def big_pool_resampler(seed):
    """Resampler.run on pools of 1200..6000 entries (a long run's persistent pool) at the final temperatures: the selected rows are
    ONE comb over exactly the weights handed in (every positive-weight row selectable)."""
    from tempest.state_manager import StateManager
    from tempest.steps.resample import Resampler
    rng = np.random.default_rng(seed)
    bad = []
    m = int(rng.integers(1200, 6000))
    n = int(rng.choice([32, 64, 200]))
    w = rng.dirichlet(np.full(m, 10 ** rng.uniform(-1, 0.5)))
    sm = StateManager(2)
    cuts = sorted(set(rng.integers(1, m, size=3).tolist()))
    for p_ in np.split(np.arange(m), cuts):
        u = np.stack([p_ / m * 0.999, (p_ % 7) / 7.0], axis=1)
        sm.update_current(dict(u=u, x=10 * u + 1, logl=-p_.astype(float), beta=0.5, logz=0.0))
        sm.commit_current_to_history()
    beta = float(rng.choice([1.0, 1 - 5e-5, 1 - 1e-9, 0.999, 0.5]))
    sm.set_current("beta", beta)
    for scheme in ("syst", "mult"):
        rs = Resampler(sm, n_particles=n, resample=scheme, clusterer=None, clustering=False)
        if scheme == "syst":
            rs.run(w.copy())
            ids = np.rint(-sm.get_current("logl")).astype(int)
            msg = one_comb(n, w, ids)
            if msg:
                bad.append(("resampler-not-a-comb", f"Resampler.run(syst) on a pool of {m} entries at beta={beta!r}: {msg}", None))
        else:
            # which probabilities does the multinomial scheme hand to the random stream?
            with Tap(log=True) as tp:
                rs.run(w.copy())
            for e in tp.log:
                if e[0] == "choice":
                    p_arg = e[3].get("p") if isinstance(e[3], dict) else None
                    if p_arg is not None and (len(p_arg) != m or not np.allclose(np.asarray(p_arg, float), w, rtol=1e-9, atol=1e-300)):
                        bad.append(("mult-weights-altered", f"Resampler.run(mult) on a pool of {m} entries at beta={beta!r} draws from probabilities that are not the weights handed in "
                                    f"({int(np.sum(np.asarray(p_arg) > 0)) if len(p_arg) == m else len(p_arg)} selectable entries of {int(np.sum(w > 0))})", None))
    return bad, dict(m=m, n=n, beta=beta)


def _batch(seed, start, count, nmax):
    os.environ["VERIF_SEED"] = str(seed)
    ck = Check("C06")
    res = []
    for i in range(start, start + count):
        rng = ck.rng("case", i)
        n, w, kind, delta = gen_weights(rng, nmax)
        desc = dict(n=n, m=len(w), kind=kind, delta=delta)
        f0 = getattr(drive_systematic, "forms", 0)
        try:
            bad, noff, ncell = drive_systematic(n, w)
        except Exception:
            bad, noff, ncell = [("exception", fmt_exc(), None)], 0, 0
        desc["forms"] = getattr(drive_systematic, "forms", 0) - f0
        bad2 = []
        try:
            b3, nseeded = drive_seeded(rng, n, w)
            bad2 += b3
            desc["seeded_calls"] = nseeded
        except Exception:
            bad2.append(("exception", fmt_exc(), None))
        try:
            for scheme in ("syst", "mult"):
                bad2 += drive_resampler(rng, n, w, scheme, bool(i % 2))
        except Exception:
            bad2.append(("exception", fmt_exc(), None))
        res.append((i, desc, bad, noff, ncell, bad2))
    return res


def multinomial_counts(ck):
    """Pooled multinomial copy counts through Resampler.run (Rule chi, two-stage)."""
    from tempest.state_manager import StateManager
    from tempest.steps.resample import Resampler
    rng = ck.rng("mult")
    ncases = ck.pick(6, 40)
    M = ck.pick(400, 2000)
    for c in range(ncases):
        m = int(rng.integers(3, 30))
        w = rng.dirichlet(np.full(m, 0.7))
        if c % 3 == 0:
            w[rng.integers(m)] = 0.0
            w /= w.sum()
        n = int(rng.integers(5, 60))
        if c % 2 == 1:
            # a pool much larger than the number of draws (the persistent pool of a long run), with a few entries whose
            # expected number of copies exceeds one
            n = int(rng.integers(8, 40))
            m = int(rng.integers(8, 25)) * n
            w = rng.dirichlet(np.full(m, 0.3))
            top = rng.choice(m, 3, replace=False)
            w[top] += rng.uniform(1.5, 4.0, 3) / n
            w /= w.sum()
        sm = StateManager(1)
        sm.update_current(dict(u=np.arange(m, dtype=float).reshape(-1, 1) / m, x=np.arange(m, dtype=float).reshape(-1, 1),
                               logl=-np.arange(m, dtype=float), beta=0.3, logz=0.0))
        sm.commit_current_to_history()
        sm.set_current("beta", [0.3, 1e-6, 1.0, 6e-5][c % 4])
        rs = Resampler(sm, n_particles=n, resample="mult", clusterer=None, clustering=False)

        # what exactly is drawn from?  (the interposer logs the arguments of np.random.choice)
        with Tap(log=True) as tapc:
            np.random.seed(1)
            rs.run(w.copy())
        pc = [e for e in tapc.log if e[0] == "choice"]
        ck.event("np.random.choice calls inspected")
        if pc:
            a, k = pc[0][2], pc[0][3]
            pv = k.get("p", a[3] if len(a) > 3 else None)
            rep = k.get("replace", a[2] if len(a) > 2 else True)
            sz = k.get("size", a[1] if len(a) > 1 else None)
            if pv is None or len(pv) != m or np.any((np.asarray(pv) > 0) != (w > 0)) or not np.allclose(pv, w, rtol=1e-12, atol=0):
                ck.violation("mult-probabilities", "the multinomial scheme does not draw with p = the weight vector it was given "
                             f"(zero-weight entries with positive probability: {int(np.sum((np.asarray(pv) > 0) & (w == 0))) if pv is not None and len(pv) == m else 'n/a'})", dict(m=m, n=n))
            if rep is False or (sz is not None and int(np.prod(sz)) != n):
                ck.violation("mult-draw-shape", f"np.random.choice called with replace={rep}, size={sz} for n={n}", dict(m=m, n=n))

        def pooled(reps, seed):
            np.random.seed(seed)
            cnt = np.zeros(m)
            for _ in range(reps):
                rs.run(w.copy())
                ids = np.rint(-sm.get_current("logl")).astype(int)
                if len(ids) != n:
                    return None
                cnt += np.bincount(ids, minlength=m)
            return cnt
        cnt = pooled(M, ck.subseed("mult", c))
        ck.case(dict(multinomial=dict(m=m, n=n, reps=M)))
        ck.event("multinomial Resampler.run draws pooled", M)
        if cnt is None:
            ck.violation("mult-length", f"multinomial returned != {n} rows", dict(m=m, n=n))
            continue
        if np.any((w == 0) & (cnt > 0)):
            ck.violation("zero-weight-drawn", "multinomial drew a zero-weight index", dict(w=w))
        tot = M * n
        z = (cnt - tot * w) / np.sqrt(np.maximum(tot * w * (1 - w), 1e-12))
        z = np.where(w > 0, z, 0.0)
        j = int(np.argmax(np.abs(z)))
        if abs(z[j]) > 5.5:
            cnt2 = pooled(2 * M, ck.subseed("mult-confirm", c))
            tot2 = 2 * M * n
            z2 = (cnt2 - tot2 * w) / np.sqrt(np.maximum(tot2 * w * (1 - w), 1e-12))
            if abs(z2[j]) > 5.5 and np.sign(z2[j]) == np.sign(z[j]):
                ck.violation("mult-biased", f"multinomial copies of index {j}: z={z[j]:.1f} then z={z2[j]:.1f} on fresh draws "
                             f"(w={w[j]:.4g})", dict(w=w, n=n))
            else:
                ck.note(f"multinomial flag z={z[j]:.1f} not confirmed (z2={z2[j]:.1f})")


def posterior_resample(ck):
    """Sampler.posterior(resample=True): uniform weights, len == pool (C12 checks the rest)."""
    from tvf import runs
    for i in range(ck.pick(2, 8)):
        s, t, like, pt = runs.run(dict(target="gauss2", N=32, n_total=128, seed=ck.subseed("post", i),
                                       resample=["mult", "syst"][i % 2]))
        us = [0.0, ONE_M, 0.5]
        for u0, trimkw in [(u, kw) for u in us for kw in (dict(trim_importance_weights=False), dict(trim_importance_weights=True, ess_trim=0.9, bins_trim=50))]:
            x0, w0, l0 = s.posterior(**trimkw)
            with Tap(cap=50) as tap:
                tap.serve("random", [u0])
                try:
                    x, w, l = s.posterior(resample=True, **trimkw)
                except Exception as e:
                    ck.violation(f"posterior-exception-{type(e).__name__}", f"posterior(resample=True) raised {e} at u0={u0!r}", dict(u0=u0))
                    continue
            ck.case(dict(posterior_resample=dict(u0=u0, pool=len(w0))))
            ck.event("posterior(resample=True) driven at chosen offset")
            if len(x) != len(w0) or len(w) != len(x):
                ck.violation("posterior-length", f"posterior(resample=True) returned {len(x)} rows for a pool of {len(w0)}", None)
            if not np.allclose(w, 1.0 / len(w), rtol=1e-12, atol=0):
                ck.violation("posterior-nonuniform", "weights not uniform after resampling", None)
            # the pool holds identical copies of a particle (persistent history), so rows
            # are grouped by content: copies(group) in [sum floor(n w_j), sum ceil(n w_j)]
            nn = len(w0)
            lo, hi, got = {}, {}, {}
            for j in range(nn):
                k = l0[j].tobytes() + x0[j].tobytes()
                lo[k] = lo.get(k, 0) + np.floor(nn * w0[j] - 1e-9)
                hi[k] = hi.get(k, 0) + np.ceil(nn * w0[j] + 1e-9)
            unknown = 0
            for j in range(len(l)):
                k = l[j].tobytes() + x[j].tobytes()
                if k not in lo:
                    unknown += 1
                got[k] = got.get(k, 0) + 1
            if unknown:
                ck.violation("posterior-row-unknown", f"{unknown} resampled rows are not rows of the pool", None)
                continue
            badk = [k for k in lo if not (lo[k] <= got.get(k, 0) <= hi[k])]
            if badk:
                k = badk[0]
                ck.violation("posterior-syst-copies", f"a pool particle got {got.get(k, 0)} copies, allowed [{lo[k]},{hi[k]}] at u0={u0!r}", dict(u0=u0))


def run():
    ck = Check("C06")
    n = ck.pick(400, 10000)
    nmax = ck.pick(80, 2000)
    per = ck.pick(10, 25)
    tasks = [("tvf.checks.c06:_batch", dict(seed=ck.seed, start=s, count=min(per, n - s), nmax=nmax), None)
             for s in range(0, n, per)]
    noffs = 0
    for i, st, val in farm.run(tasks, timeout=1800, progress="C06"):
        if st != "ok":
            ck.inconc(f"batch {i}: {st} {str(val)[:300]}")
            continue
        for idx, desc, bad, noff, ncell, bad2 in val:
            ck.case(desc, nontrivial=ncell >= 2)
            ck.event("systematic_resample driven at a chosen offset", noff)
            ck.event("comb partition cells integrated", ncell)
            ck.event("Resampler.run on synthetic pool", 2)
            ck.event("seeded systematic_resample calls checked to be one comb", desc.get("seeded_calls", 0))
            ck.event("calls with the weights as read-only array / strided view / list / tuple compared with the plain-array call", desc.get("forms", 0))
            noffs += noff
            for key, what, wit in bad + bad2:
                kk = key
                ck.violation(kk, what, dict(stream=["case", idx], case=desc, detail=wit))
    if not ck.quick:
        from tvf.contracts_run import run_suite_with_contracts
        run_suite_with_contracts(ck, ['systematic_resample'])
    bp = [("tvf.checks.c06:big_pool_resampler", dict(seed=ck.subseed("bigpool", j)), None) for j in range(ck.pick(12, 120))]
    for i, st, val in farm.run(bp, timeout=900, progress="C06-bigpool"):
        if st != "ok":
            ck.inconc(f"big pool {i}: {st} {str(val)[:300]}")
            continue
        bad_, d_ = val
        ck.case(dict(big_pool=d_), nontrivial=True)
        ck.event("Resampler.run on pools of more than 1000 entries" + (" at a temperature within 1e-4 of one" if d_["beta"] > 1 - 1e-4 else ""))
        for key, what, wit in bad_:
            ck.violation(key, what, dict(big_pool=bp[i][1]))
    multinomial_counts(ck)
    posterior_resample(ck)
    ck.require_events("systematic_resample driven at a chosen offset", "comb partition cells integrated",
                      "multinomial Resampler.run draws pooled", "posterior(resample=True) driven at chosen offset")
    return ck.finish(
        rule="(n,w) generated from VERIF_SEED: Dirichlet(alpha 0.03..10), zero entries incl. first/last, one dominant weight, "
             "equal, tempering-like, 1e-17 tails; sums off by 0, +-1e-15, +-1e-12, +-1e-9, +-1.4e-8 (inside the no-renormalisation "
             "tolerance); every breakpoint of the comb +-1ulp, every cell midpoint, 0 and 1-ulp served as the uniform draw; "
             "non-trivial = the u0-partition has >= 2 cells; multinomial pooled counts by the two-stage z rule (5.5)",
        assumptions=["the long-double cumulative sums of oracles.comb_check define the ideal comb; teeth within |sum(w)-1|+1e-12 of a breakpoint may fall on either side"],
    )


def replay(rec):
    os.environ["VERIF_SEED"] = str(rec["seed"])
    ck = Check("C06")
    w = rec["witness"] or {}
    if "stream" in w:
        n, wt, kind, delta = gen_weights(ck.rng(*w["stream"]), 80 if rec["tier"] == "quick" else 2000)
        bad, _, _ = drive_systematic(n, wt)
        print(bad[:3] or "held")
        return 1 if bad else 0
    return 2

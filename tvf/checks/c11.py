"""C11 - zero-likelihood prior regions are excluded and counted exactly once.

Monitors: (i) traced runs on targets whose likelihood is -inf outside x0 < f: the
instrumented likelihood counts finite/-inf evaluations per warm-up batch (f_hat_s); every
beta=0 iteration's recorded logZ must lie in the hull [min_s log f_hat_s, max_s log f_hat_s]
of the batches seen so far (any correct way of combining batches lies in the hull;
compounding does not); no -inf is ever stored (checked after every pipeline step);
(ii) ensemble: final evidence vs closed form by Rule S.
"""
from __future__ import annotations

import math

import numpy as np

from tvf import attach, ensemble, farm, runs
from tvf.env import Check, fmt_exc


def traced(cfg):
    from tempest.steps.mutate import Mutator
    from tempest.steps.resample import Resampler
    from tempest.core import SamplerCore
    c = runs.full(cfg)
    np.random.seed(c["seed"])
    s, t, like, pt = runs.build(c)
    batches = []       # per warm-up Mutator.run: (n_points, n_inf)
    bad = []
    seen_inf_store = []

    def chk_store(where):
        sm = s.state
        cur = sm.get_current("logl")
        if cur is not None and np.any(~np.isfinite(cur)):
            seen_inf_store.append(where + ": current logl holds non-finite values")
        if sm.get_history_length():
            last = sm.get_last_history("logl")
            if last is not None and np.any(~np.isfinite(last)):
                seen_inf_store.append(where + ": committed logl holds non-finite values")

    directed = c.get("directed")
    from tvf.tap import Tap
    tap = Tap(cap=None)
    if directed:
        f = c["tkw"]["f"]
        rngd = np.random.default_rng(c["seed"])

        def crafted(pattern):
            def make(*shape):
                n, dd = shape
                uu = rngd.random((n, dd))
                zero = np.zeros(n, bool)
                if pattern == "row0":
                    zero[0] = True
                elif pattern == "last":
                    zero[-1] = True
                elif pattern == "rows01":
                    zero[:2] = True
                elif pattern == "one-random":
                    zero[int(rngd.integers(n))] = True
                elif pattern == "all-but-one":
                    zero[:] = True
                    zero[int(rngd.integers(n))] = False
                uu[:, 0] = np.where(zero, f + (1 - f) * uu[:, 0], f * uu[:, 0])
                return uu
            return make
        # the first two np.random.rand calls of a run are the prior batches of the first two (warm-up) iterations
        tap.serve("rand", [crafted(directed), crafted(directed)])
    tap.__enter__()
    try:
        return _traced_body(c, s, t, like, batches, bad, seen_inf_store, chk_store)
    finally:
        tap.__exit__()


def _traced_body(c, s, t, like, batches, bad, seen_inf_store, chk_store):
    from tempest.steps.mutate import Mutator
    from tempest.steps.resample import Resampler
    with attach.Hooks() as hk:
        def mb(self, ms):
            return (self.state.get_current("beta"), like.n_points, like.n_inf)

        def ma(ctx, r, self, ms):
            beta, p0, i0 = ctx
            if beta == 0.0:
                batches.append((like.n_points - p0, like.n_inf - i0))
            chk_store("after Mutator.run")
        hk.wrap(Mutator, "run", before=mb, after=ma)
        hk.wrap(Resampler, "run", after=lambda ctx, r, self, w: chk_store("after Resampler.run"))
        attach.iteration_budget(hk, 400)
        try:
            s.run(n_total=c["n_total"], progress=runs.prog(c))
        except Exception as e:
            return dict(bad=[("run-raises", f"{type(e).__name__}: {e}")], warm=0, f=c["tkw"].get("f"), n_batches=len(batches), all_inf=any(b[0] == b[1] for b in batches))
    H = runs.history(s)
    betas = [float(b) for b in H["beta"]]
    warm = [i for i, b in enumerate(betas) if b == 0.0]
    all_inf = any(n == k for n, k in batches)
    if seen_inf_store:
        key = "all-zero-likelihood-batch" if all_inf else "stored-minus-inf"
        bad.append((key, seen_inf_store[0] + f" (batches points/-inf: {batches[:6]})"))
    if len(batches) != len(warm):
        bad.append(("harness", f"{len(batches)} warm-up mutations but {len(warm)} beta=0 iterations"))
    else:
        logf = []
        for j, i in enumerate(warm):
            n, k = batches[j]
            if n == k:
                break
            logf.append(math.log((n - k) / n))
            lo, hi = min(logf), max(logf)
            z = float(H["logz"][i])
            ninf_so_far = sum(k2 for _, k2 in batches[: j + 1])
            if ninf_so_far > 0 and z >= -1e-12 and len(bad) < 5:
                # "counted once" also means "not zero times": once a zero-likelihood draw has been observed, no later
                # prior-phase record may claim that the whole prior is supported (every way of combining the observed
                # batches - pooled counts, running means of the per-batch fractions - stays strictly below log 1)
                bad.append(("excluded-mass-forgotten", f"warm-up iteration {i + 1}: recorded logZ(beta=0) = {z!r} although {ninf_so_far} zero-likelihood "
                            f"draws had been observed by then (finite/total per batch {[(n2 - k2, n2) for n2, k2 in batches[:j + 1]]}; "
                            f"recorded sequence {[round(float(q), 4) for q in [H['logz'][w] for w in warm[:j + 1]]]})"))
            if not (lo - 1e-9 <= z <= hi + 1e-9):
                bad.append(("warmup-logz-outside-hull", f"warm-up iteration {i + 1}: recorded logZ(beta=0) = {z:.6f} outside "
                            f"[{lo:.6f}, {hi:.6f}] spanned by the observed finite fractions {[(n2 - k2, n2) for n2, k2 in batches[:j + 1]]}; "
                            f"recorded sequence {[round(float(q), 4) for q in [H['logz'][w] for w in warm[:j + 1]]]}"))
                break
    # everything finally returned is finite
    x, w, l = s.posterior(trim_importance_weights=False)
    if np.any(~np.isfinite(l)):
        bad.append(("stored-minus-inf" if not all_inf else "all-zero-likelihood-batch", "posterior() returns non-finite log-likelihoods"))
    return dict(bad=bad, warm=len(warm), f=c["tkw"].get("f"), n_batches=len(batches), all_inf=all_inf,
                inf_seen=int(sum(k for _, k in batches)), logz=float(s.evidence()[0]), truth=t.logz)


def long_prior_phase(seed, N, ess_ratio, f):
    """A prior phase so long that (stored samples x iterations) exceeds 2**24 while prior batches still dominate the pool:
    every evidence computed from the pool must still count the excluded mass once (thorough tier: ~2 minutes)."""
    from tvf import targets
    cfg = dict(target="support", tkw=dict(f=f, s=0.3), N=N, n_total=N, ess_ratio=ess_ratio, kernel="tpcn", mode="vec", seed=seed % 10 ** 6)
    s, t, like, pt = runs.run(cfg)
    H = runs.history(s)
    warm = [i for i, b in enumerate(H["beta"]) if float(b) == 0.0]
    bad = []
    rows = int(sum(len(l) for l in H["logl"]))
    logf = math.log(f)
    zw = [float(H["logz"][i]) for i in warm]
    if zw and max(abs(z - logf) for z in zw) > 0.05:
        bad.append(("warmup-logz-outside-hull", f"long prior phase ({len(warm)} batches of {N}): recorded logZ(beta=0) ranges {min(zw):.4f}..{max(zw):.4f}, log f = {logf:.4f}"))
    ev = float(s.evidence()[0])
    if abs(ev - t.logz) > 0.1:
        bad.append(("final-evidence-biased", f"long prior phase ({len(warm)} batches of {N}, {rows} stored samples x {len(H['beta'])} iterations = "
                    f"{rows * len(H['beta']):.3g} mixture elements): final logZ {ev:.4f}, closed form {t.logz:.4f} (log f = {logf:.4f})"))
    return dict(bad=bad, elements=rows * len(H["beta"]), warm=len(warm))


def run():
    ck = Check("C11")
    tasks = []
    fs = ck.pick([1.0, 0.98, 0.9, 0.5, 0.15], [1.0, 0.98, 0.95, 0.9, 0.7, 0.5, 0.3, 0.15])
    i = 0
    for f in fs:
        for er in (1.0, 2.0, 4.0):
            for N, mode in ((64, "vec"), (200, "scalar"), (64, "blobs"), (128, "vec")):
                for rep in range(ck.pick(1, 4)):
                    cfg = dict(target="support", tkw=dict(f=f), N=N, n_total=2 * N, ess_ratio=er, mode=mode,
                               kernel=["tpcn", "rwm"][i % 2], resample=["mult", "syst"][(i // 2) % 2], seed=ck.subseed("tr", i))
                    tasks.append(("tvf.checks.c11:traced", dict(cfg=cfg), None))
                    i += 1
    # the same with the likelihood evaluated through a pool argument (pool=1: serial but "a pool is configured"; a thread pool and a
    # concurrent.futures executor: evaluations stay in this process, so the per-batch counters still see them)
    for j, f in enumerate(ck.pick([0.9, 0.5, 0.15], [0.98, 0.9, 0.7, 0.5, 0.3, 0.15])):
        for pl in (1, "threadpool", "tpe"):
            cfg = dict(target="support", tkw=dict(f=f), N=64, n_total=128, ess_ratio=[2.0, 3.0][j % 2], mode=["scalar", "blobs"][(j + (pl == 1)) % 2],
                       kernel=["tpcn", "rwm"][j % 2], resample=["mult", "syst"][j % 2], seed=ck.subseed("pool", j, str(pl)), pool=pl)
            tasks.append(("tvf.checks.c11:traced", dict(cfg=cfg), None))
    # directed batches: the RNG interposer serves prior draws in which exactly the chosen rows have zero likelihood
    for j, pat in enumerate(["row0", "last", "rows01", "one-random", "all-but-one"]):
        for N, mode in ((32, "vec"), (24, "blobs")):
            cfg = dict(target="support", tkw=dict(f=0.7), N=N, n_total=3 * N, ess_ratio=3.0, mode=mode, kernel=["tpcn", "rwm"][j % 2],
                       seed=ck.subseed("dir", j, N), directed=pat)
            tasks.append(("tvf.checks.c11:traced", dict(cfg=cfg), None))
    # deliberate probe of the all-zero batch mechanism (tiny support, tiny batch)
    for r in range(2):
        tasks.append(("tvf.checks.c11:traced", dict(cfg=dict(target="support", tkw=dict(f=0.02), N=8, n_total=16, ess_ratio=2.0, mode="vec",
                                                               seed=ck.subseed("allinf", r))), None))
    for i, st, val in farm.run(tasks, timeout=600, progress="C11-traced"):
        cfg = tasks[i][1]["cfg"]
        if st == "timeout":
            ck.inconc(f"traced run {cfg}: watchdog")
            continue
        if st != "ok":
            ck.violation("run-crashed", f"{cfg}: {st} {str(val)[-400:]}", dict(cfg=cfg))
            continue
        ck.case(dict(traced=cfg), nontrivial=val["inf_seen"] > 0 if "inf_seen" in val else False)
        ck.event("traced runs")
        if cfg.get("pool") is not None:
            ck.event("traced runs with a pool argument (pool=1, thread pool, concurrent.futures executor)")
        if cfg.get("directed"):
            ck.event("directed warm-up batches (chosen rows in the zero-likelihood region)", 2)
        ck.event("warm-up (beta=0) iterations checked against the hull", val["warm"])
        ck.event("-inf likelihood evaluations observed during warm-up", val.get("inf_seen", 0))
        for key, what in val["bad"]:
            if key == "run-raises" and val.get("all_inf"):
                key = "all-zero-likelihood-batch"
            ck.violation(key, what, dict(cfg=cfg))
    # final evidence (Rule S)
    R = ck.pick(32, 96)
    cells = []
    for f in ck.pick([0.5, 0.15], [0.9, 0.5, 0.3, 0.15]):
        for er in ck.pick([2.0], [1.0, 2.0, 4.0]):
            for N in ck.pick([128], [128, 512]):
                cells.append(dict(target="support", tkw=dict(f=f), N=N, n_total=4 * N, ess_ratio=er, kernel="tpcn", mode="vec"))

    def extract(cfg, sums):
        from tvf import targets
        t = targets.make("support", **cfg["tkw"])
        return [("logZ", [s["logz"] for s in sums], t.logz, 1.0)]

    def on_v(cfg, name, r1, r2):
        ck.violation("final-evidence-biased", f"support fraction f={cfg['tkw']['f']}, N={cfg['N']}, ess_ratio={cfg['ess_ratio']}: mean logZ error "
                     f"{r1['b']:+.4f} +- {r1['se']:.4f} (z={r1['z']:.1f}), confirmed {r2['b']:+.4f} +- {r2['se']:.4f} on fresh seeds", dict(cfg=cfg))
    ck.tables["final_evidence"] = ensemble.judge(ck, cells, extract, R, "final", on_v)
    if not ck.quick:
        lt = [("tvf.checks.c11:long_prior_phase", dict(seed=ck.subseed("long", 0), N=16384, ess_ratio=33.0, f=0.25), None)]
        for i, st, val in farm.run(lt, timeout=2400, progress="C11-long"):
            if st != "ok":
                ck.inconc(f"long prior phase: {st} {str(val)[-300:]}")
                continue
            ck.case(dict(long_prior_phase=lt[i][1], elements=val["elements"]), nontrivial=val["elements"] > 2 ** 24)
            ck.event("runs whose prior phase pushes samples x iterations beyond 2**24", int(val["elements"] > 2 ** 24))
            for key, what in val["bad"]:
                ck.violation(key, what, lt[i][1])
    ck.require_events("traced runs", "warm-up (beta=0) iterations checked against the hull", "-inf likelihood evaluations observed during warm-up",
                      "ensemble cells judged by Rule S")
    return ck.finish(
        rule="targets with likelihood -inf outside x0<f, f in {1,0.9,0.5,0.15,...}, ess_ratio {1,2,4} (2-6 warm-up iterations), N {64,128,200}, "
             "vec/scalar/blobs; per warm-up batch the instrumented likelihood counts finite and -inf evaluations; hull test per beta=0 iteration; "
             "final evidence by Rule S over R replicates per cell; non-trivial = at least one -inf evaluation was observed / cell had enough replicates",
        assumptions=["the hull criterion accepts any combination rule whose beta=0 estimate lies between the smallest and largest per-batch finite fraction"],
    )

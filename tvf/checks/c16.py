"""C16 - boundary maps fold every real number into the unit interval correctly.

Monitor: the real apply_boundary_conditions / check_bounds are driven with a catalogue of
hostile doubles and random doubles of every exponent; the oracle is the exact rational
fold (fractions.Fraction) of each input double.  FP-exception trap on.
"""
from __future__ import annotations

import math
import os
from fractions import Fraction

import numpy as np

from tvf import farm
from tvf.env import Check, fmt_exc
from tvf.oracles import fold_periodic_exact, fold_reflect_exact

ULP = 2.0 ** -53


def catalogue():
    vals = [0.0, -0.0, 5e-324, -5e-324, 2.2250738585072014e-308, -2.2250738585072014e-308,
            1e-300, -1e-300, 1e-20, -1e-20, 0.5, -0.5, 0.25, 0.75, 1 / 3, -1 / 3]
    for k in range(-4, 5):
        fk = float(k)
        vals += [fk, np.nextafter(fk, np.inf), np.nextafter(fk, -np.inf), fk + 1e-9, fk - 1e-9,
                 fk + 0.5, fk + 0.999999]
    for n in list(range(1, 70)) + [100, 500, 1000, 1023]:
        vals += [2.0 ** n, -(2.0 ** n), 2.0 ** n + 1, 2.0 ** n - 1, 2.0 ** -n, -(2.0 ** -n),
                 1 + 2.0 ** -n, 1 - 2.0 ** -n, -(1 + 2.0 ** -n)]
    vals += [9.2e18, 9.223372036854775e18, 9.223372036854776e18, 9.3e18, 1e19, 1.85e19, -9.3e18, -1e19,
             2.0 ** 63, 2.0 ** 63 + 2048, -(2.0 ** 63), -(2.0 ** 63) - 2048, 2.0 ** 64, 1e300, -1e300,
             1.7976931348623157e308, -1.7976931348623157e308, 4503599627370497.0, 4503599627370495.5,
             -4503599627370495.5, 9007199254740993.0, 1e15 + 0.3, -1e15 - 0.3, 12345.678, -98765.4321]
    return np.array([float(v) for v in vals if math.isfinite(float(v))])


def random_doubles(rng, n):
    kind = rng.integers(0, 4, n)
    out = np.empty(n)
    # uniform in exponent
    e = rng.uniform(-1074, 1023, n)
    m = 1 + rng.random(n)
    s = rng.choice([-1.0, 1.0], n)
    with np.errstate(all="ignore"):
        a = s * m * np.exp2(np.floor(e))
    b = rng.uniform(-5, 5, n)
    c = np.round(rng.uniform(-50, 50, n)) + rng.choice([0.0, 1e-12, -1e-12, 1e-16, -1e-16, 0.5], n)
    dd = s * rng.integers(0, 2 ** 62, n).astype(float) * rng.choice([1.0, 4.0, 1024.0], n) + rng.random(n)
    out = np.where(kind == 0, a, np.where(kind == 1, b, np.where(kind == 2, c, dd)))
    out = out[np.isfinite(out)]
    return out


def check_values(vals, kind):
    """kind in {'periodic','reflective'} -- returns list of (key, what, witness)."""
    from tempest.mcmc import apply_boundary_conditions
    bad = []
    vals = np.asarray(vals, float)
    inp = vals.reshape(-1, 1).copy()
    before = inp.copy()
    fp = None
    try:
        with np.errstate(over="raise", invalid="raise", divide="raise"):
            out = apply_boundary_conditions(inp, np.array([0]) if kind == "periodic" else None,
                                            np.array([0]) if kind == "reflective" else None)
    except FloatingPointError as e:
        fp = str(e)
        with np.errstate(all="ignore"):
            out = apply_boundary_conditions(inp, np.array([0]) if kind == "periodic" else None,
                                            np.array([0]) if kind == "reflective" else None)
    if fp:
        # find an offending value
        off = None
        for v in vals:
            try:
                with np.errstate(over="raise", invalid="raise", divide="raise"):
                    apply_boundary_conditions(np.array([v]), np.array([0]) if kind == "periodic" else None,
                                              np.array([0]) if kind == "reflective" else None)
            except FloatingPointError:
                off = float(v)
                break
        bad.append((f"fp-exception-{kind}", f"floating-point exception in the {kind} fold: {fp} (e.g. input {off!r})",
                    dict(kind=kind, value=off)))
    if inp.tobytes() != before.tobytes():
        bad.append(("input-mutated", "apply_boundary_conditions modified its input array", dict(kind=kind)))
    out = out[:, 0]
    ex = fold_periodic_exact if kind == "periodic" else fold_reflect_exact
    for v, o in zip(vals, out):
        o = float(o)
        if not (0.0 <= o <= 1.0):
            bad.append((f"outside-{kind}", f"{kind} fold of {v!r} = {o!r} is outside [0,1]", dict(kind=kind, value=float(v), got=o)))
            if len(bad) > 20:
                break
            continue
        e = ex(float(v))
        err = abs(Fraction(o) - e)
        if kind == "periodic":
            err = min(err, abs(Fraction(o) - e - 1), abs(Fraction(o) - e + 1))
        if err > Fraction(ULP):
            bad.append((f"value-{kind}", f"{kind} fold of {v!r} = {o!r}, exact {float(e)!r} (err {float(err):.3g})",
                        dict(kind=kind, value=float(v), got=o, exact=float(e))))
            if len(bad) > 20:
                break
    # idempotence
    with np.errstate(all="ignore"):
        out2 = apply_boundary_conditions(out.reshape(-1, 1), np.array([0]) if kind == "periodic" else None,
                                         np.array([0]) if kind == "reflective" else None)[:, 0]
    d = np.abs(out2 - out)
    if kind == "periodic":
        d = np.minimum(d, np.abs(d - 1))
    j = np.where(~(d <= ULP))[0]
    ok_in = (out >= 0) & (out <= 1)
    j = [i for i in j if ok_in[i]]
    if len(j):
        i = j[0]
        bad.append((f"idempotence-{kind}", f"fold(fold({vals[i]!r})) = {out2[i]!r} != fold = {out[i]!r}",
                    dict(kind=kind, value=float(vals[i]))))
    return bad


def check_structure(rng):
    """untouched coordinates, index subsets, 1-D/2-D, check_bounds equivalence."""
    from tempest.mcmc import apply_boundary_conditions, check_bounds
    bad = []
    d = int(rng.integers(1, 6))
    n = int(rng.integers(1, 8))
    idx = rng.permutation(d)
    kp = int(rng.integers(0, d + 1))
    kr = int(rng.integers(0, d + 1 - kp))
    per = idx[:kp]
    ref = idx[kp:kp + kr]
    form = rng.choice(["array", "list", "none-if-empty", "tuple", "tuple"])
    P = per if form == "array" else list(map(int, per)) if form == "list" else tuple(map(int, per)) if form == "tuple" else (per if len(per) else None)
    Rf = ref if form == "array" else list(map(int, ref)) if form == "list" else tuple(map(int, ref)) if form == "tuple" else (ref if len(ref) else None)
    cat = catalogue()
    x = rng.choice(cat, size=(n, d))
    mix = rng.random((n, d)) < 0.5
    x = np.where(mix, rng.uniform(-2, 3, (n, d)), x)
    if rng.random() < 0.3:
        x[rng.integers(n), rng.integers(d)] = -0.0
    one_d = rng.random() < 0.4
    arr = x[0].copy() if one_d else x.copy()
    layout = str(rng.choice(["c", "fortran", "strided", "dup-index"]))
    if layout == "fortran" and not one_d:
        arr = np.asfortranarray(arr)
    elif layout == "strided":
        big = np.zeros(tuple(2 * np.array(arr.shape)))
        view = big[::2] if one_d else big[::2, ::2]
        view[...] = arr
        arr = view                                   # non-contiguous view with the same values
    elif layout == "dup-index":
        if P is not None and len(P):
            P = list(P) + [P[0]] if isinstance(P, list) else tuple(P) + (P[0],) if isinstance(P, tuple) else np.concatenate([P, P[:1]])
        if Rf is not None and len(Rf):
            Rf = list(Rf) + [Rf[0]] if isinstance(Rf, list) else tuple(Rf) + (Rf[0],) if isinstance(Rf, tuple) else np.concatenate([Rf, Rf[:1]])
    keep = np.array(arr, copy=True, order="C")
    with np.errstate(all="ignore"):
        out = apply_boundary_conditions(arr, P, Rf)
    if np.ascontiguousarray(arr).tobytes() != keep.tobytes():
        bad.append(("input-mutated", f"input modified in place (layout {layout})", dict(d=d, per=per.tolist(), ref=ref.tolist())))
    # the folded values must not depend on the memory layout of the input or on an index being listed twice
    with np.errstate(all="ignore"):
        ref_out = apply_boundary_conditions(keep.copy(), per if len(per) else None, ref if len(ref) else None)
    dlay = np.abs(np.asarray(out, float) - np.asarray(ref_out, float))
    if len(per):
        dlay[..., list(per)] = np.minimum(dlay[..., list(per)], np.abs(dlay[..., list(per)] - 1.0))     # periodic end points 0 == 1
    if layout == "dup-index":
        same = bool(np.all(dlay <= ULP))       # an index listed twice folds twice: equal up to idempotence
    else:
        same = np.ascontiguousarray(out).tobytes() == np.ascontiguousarray(ref_out).tobytes()
    if not same:
        bad.append(("layout-dependent", f"result differs for a {layout} input / index list", dict(x=keep, per=per.tolist(), ref=ref.tolist())))
    if out.shape != arr.shape:
        bad.append(("shape", f"shape {out.shape} != {arr.shape}", None))
        return bad, dict(d=d, n=n, kp=kp, kr=kr, one_d=bool(one_d))
    other = [i for i in range(d) if i not in set(per) | set(ref)]
    if other:
        a = np.ascontiguousarray(out[..., other])
        b = np.ascontiguousarray(keep[..., other])
        if a.tobytes() != b.tobytes():
            bad.append(("untouched-changed", f"non-designated coordinates changed: {b.ravel()[:4]} -> {a.ravel()[:4]}",
                        dict(d=d, per=per.tolist(), ref=ref.tolist(), x=keep)))
    # elementwise agreement between 1-D and 2-D paths
    if not one_d:
        with np.errstate(all="ignore"):
            rows = np.array([apply_boundary_conditions(r, P, Rf) for r in keep])
        if rows.tobytes() != np.ascontiguousarray(out).tobytes():
            bad.append(("1d-vs-2d", "row-wise application differs from 2-D application", dict(x=keep)))
    # check_bounds  <=> all strict coordinates in [0,1]
    cb = check_bounds(keep, P, Rf)
    if other:
        exp = np.all((keep[..., other] >= 0) & (keep[..., other] <= 1), axis=-1)
    else:
        exp = np.ones(keep.shape[:-1], dtype=bool) if keep.ndim > 1 else True
    if not np.array_equal(np.asarray(cb, dtype=bool), np.asarray(exp, dtype=bool)):
        bad.append(("check-bounds", f"check_bounds={cb} expected {exp}", dict(x=keep, per=per.tolist(), ref=ref.tolist())))
    # boundary-exact values
    for v, e in ((0.0, True), (1.0, True), (-0.0, True), (np.nextafter(1.0, 2.0), False), (-5e-324, False)):
        if other:
            y = np.full(d, 0.5)
            y[other[0]] = v
            if bool(check_bounds(y, P, Rf)) != e:
                bad.append(("check-bounds-edge", f"check_bounds at coordinate value {v!r} = {not e}", dict(v=v)))
    # the caller keeps ONE pair of index containers and edits them in place between calls (lists: append / pop / clear;
    # arrays: element assignment): every call must read their current contents, i.e. agree with freshly built containers
    as_list = bool(rng.random() < 0.6)
    Pc = list(map(int, per)) if as_list else np.array(per, dtype=int)
    Rc = list(map(int, ref)) if as_list else np.array(ref, dtype=int)
    Y = np.where(rng.random((6, d)) < 0.5, rng.uniform(-1.5, 2.5, (6, d)), rng.random((6, d)))
    n_reuse = 0
    trace = []        # (contents of the containers at the call, results) - expectations are computed AFTER the sequence, so that no
                      # call with other container objects sits between two calls of the sequence
    for step in range(4):
        with np.errstate(all="ignore"):
            got_cb = np.asarray(check_bounds(Y, Pc, Rc))
            got_ap = np.asarray(apply_boundary_conditions(Y.copy(), Pc, Rc))
            got_cb2 = np.asarray(check_bounds(Y[::-1].copy(), Pc, Rc))[::-1]
        trace.append((list(map(int, Pc)), list(map(int, Rc)), got_cb.copy(), got_ap.copy(), got_cb2.copy()))
        n_reuse += 1
        # edit in place
        free = [i for i in range(d) if i not in set(map(int, Pc)) | set(map(int, Rc))]
        which = Pc if (rng.random() < 0.5) else Rc
        if as_list:
            r = rng.random()
            if free and r < 0.45:
                which.append(int(free[0]))
            elif len(which) and r < 0.8:
                which.pop(int(rng.integers(len(which))))
            elif len(which):
                which.clear()
            elif free:
                which.append(int(free[-1]))
        else:
            if free and len(which):
                which[int(rng.integers(len(which)))] = int(free[int(rng.integers(len(free)))])
            elif len(Pc) and len(Rc):
                a_, b_ = int(rng.integers(len(Pc))), int(rng.integers(len(Rc)))
                Pc[a_], Rc[b_] = Rc[b_], Pc[a_]
    for step, (pc, rc, got_cb, got_ap, got_cb2) in enumerate(trace):
        free = [i for i in range(d) if i not in set(pc) | set(rc)]
        exp_direct = np.all((Y[:, free] >= 0) & (Y[:, free] <= 1), axis=1) if free else np.ones(len(Y), bool)
        with np.errstate(all="ignore"):
            exp_ap = np.asarray(apply_boundary_conditions(Y.copy(), list(pc) if as_list else np.array(pc, dtype=int), list(rc) if as_list else np.array(rc, dtype=int)))
        if not np.array_equal(got_cb.astype(bool), exp_direct) or not np.array_equal(got_cb2.astype(bool), exp_direct):
            bad.append(("check-bounds-stale-containers", f"call {step + 1} with the same (edited in place) index containers periodic={pc} "
                        f"reflective={rc}: check_bounds={got_cb.tolist()} expected {exp_direct.tolist()}", dict(d=d)))
            break
        if got_ap.tobytes() != exp_ap.tobytes():
            bad.append(("fold-stale-containers", f"call {step + 1} with the same (edited in place) index containers: folded values differ from those "
                        f"with freshly built containers", dict(d=d)))
            break
    return bad, dict(d=d, n=n, kp=kp, kr=kr, one_d=bool(one_d), reuse=n_reuse)


def check_highdim(rng):
    """Many coordinates and index arrays of every integer dtype (a caller who keeps its index sets in compact arrays): designated
    coordinates folded, the others untouched, bounds check on exactly the others."""
    from tempest.mcmc import apply_boundary_conditions, check_bounds
    bad = []
    d = int(rng.choice([70, 127, 128, 129, 200, 255, 256, 300]))
    idx = rng.permutation(d)
    kp = int(rng.integers(1, d // 2))
    kr = int(rng.integers(1, d // 2))
    per, ref = np.sort(idx[:kp]), np.sort(idx[kp:kp + kr])
    dts = [np.int64, np.int32, np.int16, np.uint16, np.uint32, np.uint64, np.intp]
    if d <= 256:
        dts.append(np.uint8)
    if d <= 128:
        dts.append(np.int8)
    dt = dts[int(rng.integers(len(dts)))]
    P, Rf = per.astype(dt), ref.astype(dt)
    x = rng.uniform(-1.5, 2.5, (4, d))
    with np.errstate(all="ignore"):
        out = np.asarray(apply_boundary_conditions(x.copy(), P, Rf))
        exp = np.asarray(apply_boundary_conditions(x.copy(), [int(v) for v in per], [int(v) for v in ref]))
    other = np.setdiff1d(np.arange(d), np.concatenate([per, ref]))
    if out.tobytes() != exp.tobytes():
        j = np.argwhere(out != exp)[0]
        bad.append(("index-dtype-dependent", f"d={d}, index arrays of dtype {np.dtype(dt).name}: coordinate {int(j[1])} comes out as {out[tuple(j)]!r}, with the same indices as a "
                    f"Python list as {exp[tuple(j)]!r}", dict(d=d, dtype=np.dtype(dt).name)))
    elif np.any(out[:, per] < 0) or np.any(out[:, per] > 1) or np.any(out[:, ref] < 0) or np.any(out[:, ref] > 1) or not np.array_equal(out[:, other], x[:, other]):
        bad.append(("index-dtype-dependent", f"d={d}, dtype {np.dtype(dt).name}: designated coordinates not folded / others touched", dict(d=d)))
    y = rng.random((6, d))
    y[0, per[0]] = 1.7          # outside only in a designated coordinate: accepted
    y[1, other[0]] = -0.2       # outside in an ordinary coordinate: rejected
    y[2, ref[-1]] = -3.0
    y[3, other[-1]] = 1.0000001
    cb = np.asarray(check_bounds(y, P, Rf)).astype(bool)
    expcb = np.all((y[:, other] >= 0) & (y[:, other] <= 1), axis=1)
    if not np.array_equal(cb, expcb):
        bad.append(("check-bounds", f"d={d}, index arrays of dtype {np.dtype(dt).name}: check_bounds={cb.tolist()} expected {expcb.tolist()}", dict(d=d, dtype=np.dtype(dt).name)))
    return bad, dict(d=d, dtype=np.dtype(dt).name, highdim=1)


def big_batch(seed, rows):
    """One long 2-D batch: the map is a per-row function, so the result on the whole batch equals the results on its pieces
    (chunks of 4099 rows); sampled rows (the last ones, neighbours of every power of two) are compared with the exact fold."""
    from tempest.mcmc import apply_boundary_conditions, check_bounds
    rng = np.random.default_rng(seed)
    d = 3
    X = rng.uniform(-3.0, 4.0, (rows, d))
    hostile = np.array([0.0, -0.0, 1.0, -1.0, 2.0, 1.0 + 2 ** -52, -2 ** -53, 1e17, -1e17, 2.5, -0.5])
    pos = rng.integers(0, rows, 4000)
    X[pos, rng.integers(0, d, 4000)] = hostile[rng.integers(0, len(hostile), 4000)]
    X[-1] = [-1.24, 0.5, 4.47]
    X[-2] = [7.75, -0.2, -0.001]
    keep = X.copy()
    per, ref = [0], [2]
    bad = []
    with np.errstate(all="ignore"):
        out = np.asarray(apply_boundary_conditions(X, per, ref))
        cb = np.asarray(check_bounds(X, per, ref)).astype(bool)
        step = 4099
        pieces = np.concatenate([np.asarray(apply_boundary_conditions(X[a:a + step], per, ref)) for a in range(0, rows, step)])
        cbp = np.concatenate([np.asarray(check_bounds(X[a:a + step], per, ref)).astype(bool) for a in range(0, rows, step)])
    if X.tobytes() != keep.tobytes():
        bad.append(("input-mutated", f"apply_boundary_conditions / check_bounds modified a {rows}-row input", None))
    if out.shape != X.shape:
        bad.append(("batch-shape", f"{rows}-row batch came back with shape {out.shape}", None))
        return bad, dict(rows=rows, sampled=0)
    if out.tobytes() != pieces.tobytes():
        j = int(np.where(np.any(out != pieces, axis=1))[0][0])
        bad.append(("batch-length-dependent", f"{rows}-row batch: row {j} folds to {out[j]} inside the batch but to {pieces[j]} in a 4099-row piece of it (input {keep[j]})",
                    dict(rows=rows, row=j)))
    if not np.array_equal(cb, cbp):
        j = int(np.where(cb != cbp)[0][0])
        bad.append(("batch-length-dependent", f"{rows}-row batch: check_bounds of row {j} is {bool(cb[j])} inside the batch, {bool(cbp[j])} in a piece of it", dict(rows=rows, row=j)))
    expcb = (keep[:, 1] >= 0) & (keep[:, 1] <= 1)
    if not np.array_equal(cb, expcb):
        j = int(np.where(cb != expcb)[0][0])
        bad.append(("check-bounds", f"{rows}-row batch: check_bounds of row {j} ({keep[j]}) is {bool(cb[j])}", dict(rows=rows, row=j)))
    sample = set(range(max(0, rows - 40), rows)) | set(range(0, 10))
    k = 1024
    while k < rows:
        sample |= {k - 1, k, k + 1} & set(range(rows))
        k *= 2
    sample |= set(int(v) for v in rng.integers(0, rows, 150))
    for j in sorted(sample):
        for col, ex, kind in ((0, fold_periodic_exact, "periodic"), (2, fold_reflect_exact, "reflective")):
            o = float(out[j, col])
            if not (0.0 <= o <= 1.0):
                bad.append((f"outside-{kind}", f"{rows}-row batch: row {j}: {kind} fold of {keep[j, col]!r} = {o!r} is outside [0,1]", dict(rows=rows, row=j)))
                continue
            e = ex(float(keep[j, col]))
            err = abs(Fraction(o) - e)
            if kind == "periodic":
                err = min(err, abs(Fraction(o) - e - 1), abs(Fraction(o) - e + 1))
            if err > Fraction(ULP):
                bad.append((f"value-{kind}", f"{rows}-row batch: row {j}: {kind} fold of {keep[j, col]!r} = {o!r}, exact {float(e)!r}", dict(rows=rows, row=j)))
        if out[j, 1] != keep[j, 1] and not (np.isnan(out[j, 1]) and np.isnan(keep[j, 1])):
            bad.append(("untouched-coordinate", f"{rows}-row batch: row {j}: ordinary coordinate changed from {keep[j, 1]!r} to {out[j, 1]!r}", dict(rows=rows, row=j)))
        if len(bad) > 12:
            break
    return bad[:12], dict(rows=rows, sampled=len(sample))


def _batch(seed, start, count, nvals):
    os.environ["VERIF_SEED"] = str(seed)
    ck = Check("C16")
    res = []
    for i in range(start, start + count):
        rng = ck.rng("vals", i)
        vals = random_doubles(rng, nvals)
        for kind in ("periodic", "reflective"):
            try:
                bad = check_values(vals, kind)
            except Exception:
                bad = [("exception", fmt_exc(), None)]
            res.append(("vals", i, kind, len(vals), bad,
                        [float(v) for v in vals[:3]]))
        for j in range(40):
            r2 = ck.rng("struct", i, j)
            try:
                bad, desc = check_structure(r2)
            except Exception:
                bad, desc = [("exception", fmt_exc(), None)], {}
            res.append(("struct", (i, j), desc, 1, bad, None))
        for j in range(6):
            r3 = ck.rng("highdim", i, j)
            try:
                bad, desc = check_highdim(r3)
            except Exception:
                bad, desc = [("exception", fmt_exc(), None)], dict(highdim=1)
            res.append(("struct", (i, 1000 + j), desc, 1, bad, None))
    return res


def run():
    ck = Check("C16")
    cat = catalogue()
    for kind in ("periodic", "reflective"):
        bad = check_values(cat, kind)
        ck.case(dict(catalogue=len(cat), kind=kind), n=len(cat))
        ck.event(f"{kind} fold compared with exact rational fold", len(cat))
        for key, what, wit in bad:
            ck.violation(key, what, wit)
    nb = ck.pick(32, 400)
    nvals = ck.pick(3000, 6000)
    tasks = [("tvf.checks.c16:_batch", dict(seed=ck.seed, start=s, count=1, nvals=nvals), None) for s in range(nb)]
    for i, st, val in farm.run(tasks, timeout=900, progress="C16"):
        if st != "ok":
            ck.inconc(f"batch {i}: {st} {str(val)[:300]}")
            continue
        for rec in val:
            if rec[0] == "vals":
                _, idx, kind, n, bad, head = rec
                ck.case(dict(batch=idx, kind=kind, n=n, head=head), n=n)
                ck.event(f"{kind} fold compared with exact rational fold", n)
                for key, what, wit in bad:
                    ck.violation(key, what, dict(stream=["vals", idx], **(wit or {})))
            else:
                _, idx, desc, n, bad, _ = rec
                ck.case(dict(struct=desc), nontrivial=bool(desc.get("kp", 0) + desc.get("kr", 0)))
                ck.event("structure case (untouched coords / 1-D vs 2-D / check_bounds)")
                ck.event("cases with 70..300 coordinates and index arrays of int8..uint64 dtype", desc.get("highdim", 0))
                ck.event("calls with index containers the caller had edited in place since the previous call", desc.get("reuse", 0))
                for key, what, wit in bad:
                    ck.violation(key, what, dict(stream=["struct"] + list(idx), detail=wit))
    # long batches (the maps are applied to whole particle histories by user code): lengths around the powers of two up to 2^20 / 2^22
    sizes = ck.pick([65537, 262145, 300000, 1048577 + 5], [65537, 131073, 262145, 300000, 524289, 700001, 1048577 + 5, 1200000, 2097153, 4194304 + 7])
    bt = [("tvf.checks.c16:big_batch", dict(seed=ck.subseed("big", j) % 2 ** 31, rows=r), None) for j, r in enumerate(sizes)]
    for i, st, val in farm.run(bt, timeout=900, progress="C16-big"):
        if st != "ok":
            ck.inconc(f"long batch {bt[i][1]}: {st} {str(val)[:300]}")
            continue
        bad, desc = val
        ck.case(dict(long_batch=desc), n=3 * desc["rows"])
        ck.event("long 2-D batches (65537 ... 4194311 rows) compared with their own pieces")
        ck.event("rows of long batches compared with the exact rational fold", desc["sampled"])
        for key, what, wit in bad:
            ck.violation(key, what, dict(long_batch=bt[i][1], detail=wit))
    if not ck.quick:
        from tvf.contracts_run import run_suite_with_contracts
        run_suite_with_contracts(ck, ['apply_boundary_conditions'])
    if not ck.quick:
        hyp(ck)
    ck.require_events("periodic fold compared with exact rational fold", "reflective fold compared with exact rational fold",
                      "structure case (untouched coords / 1-D vs 2-D / check_bounds)")
    return ck.finish(
        rule="catalogue of hostile doubles (signed zeros, subnormals, k+-ulp, 2^+-n, 2^63 neighbourhood, 1e300, max) "
             "plus random doubles uniform in exponent / near integers / large integers, each folded by the real "
             "apply_boundary_conditions as periodic and as reflective and compared to the exact rational fold "
             "(|err| <= 2^-53, periodic 0==1); structure cases draw dimension, index subsets (array/list/None), "
             "1-D or 2-D input; evaluations counts folded values; distinct by batch descriptor",
        assumptions=["fractions.Fraction arithmetic on the exact value of each double is the oracle"],
    )


def hyp(ck):
    try:
        from hypothesis import given, settings, strategies as st, HealthCheck
    except Exception:
        ck.note("hypothesis not importable; skipped")
        return
    found = []

    @settings(max_examples=20000, deadline=None, database=None, derandomize=False,
              suppress_health_check=list(HealthCheck))
    @given(st.lists(st.floats(allow_nan=False, allow_infinity=False), min_size=1, max_size=20))
    def prop(vs):
        for kind in ("periodic", "reflective"):
            bad = check_values(np.array(vs), kind)
            ck.event("hypothesis floats() case")
            if bad:
                found.append(bad[0])
                raise AssertionError(bad[0][1])
    try:
        prop()
    except AssertionError:
        pass
    except Exception:
        ck.note("hypothesis run error: " + fmt_exc()[-300:])
    for key, what, wit in found[:3]:
        ck.violation(key, what, wit)


def replay(rec):
    w = rec["witness"] or {}
    if "value" in w and w.get("kind"):
        bad = check_values(np.array([w["value"]]), w["kind"])
        print(bad or "held")
        return 1 if bad else 0
    return 2

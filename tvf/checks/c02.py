"""C02 - reported log-evidence is consistent and independent across seeded runs.

(a) Rule S on the final log-evidence of replicate ensembles against the closed form;
(b) deterministic independence monitor: the global RNG state is hashed at every pipeline
    step boundary (entry/exit of Reweighter/Trainer/Resampler/Mutator.run) of every run; a
    hash seen under two different seeds, or twice within one run, means shared innovations;
(c) thorough: variance of group means of the logZ errors over disjoint seed groups must be
    compatible with var/R (F-test at 1e-6) - dependence between runs inflates it.
"""
from __future__ import annotations

import numpy as np
from scipy import stats as sst

from tvf import attach, ensemble, farm, runs, targets
from tvf.env import Check
from tvf.tap import state_hash
from tvf.checks.c01 import CONFIGS4, CONFIGS8


def run_with_hashes(cfg):
    from tempest.steps.reweight import Reweighter
    from tempest.steps.train import Trainer
    from tempest.steps.resample import Resampler
    from tempest.steps.mutate import Mutator
    c = runs.full(cfg)
    np.random.seed(c["seed"])
    hashes = []
    with attach.Hooks() as hk:
        for cls in (Reweighter, Trainer, Resampler, Mutator):
            nm = cls.__name__
            hk.wrap(cls, "run", before=lambda *a, nm=nm, **k: hashes.append((nm + ":in", state_hash())),
                    after=lambda ctx, r, *a, nm=nm, **k: hashes.append((nm + ":out", state_hash())))
        attach.iteration_budget(hk, 400)
        s, t, like, pt = runs.execute(c)
    # within-run repeats: the same state at two *different* boundaries separated by a draw
    seq = [h for _, h in hashes]
    distinct_runs = [seq[0]]
    for h in seq[1:]:
        if h != distinct_runs[-1]:
            distinct_runs.append(h)
    repeats = len(distinct_runs) - len(set(distinct_runs))
    return dict(logz=float(s.evidence()[0]), hashes=sorted(set(distinct_runs[1:])), repeats=repeats, n_boundaries=len(hashes),
                n_iter=s.state.get_history_length(), est={})


def mech_key(cfg):
    t = targets.make(cfg["target"], **cfg.get("tkw", {}))
    bc = "periodic" if t.periodic else "reflective" if t.reflective else None
    if bc and cfg["kernel"] == "tpcn":
        return f"tpcn+{bc}"
    if bc == "reflective" and cfg["kernel"] == "rwm":
        return "rwm+reflective+correlated"
    return f"evidence-biased-{cfg['kernel']}-{'clustered' if cfg['clustering'] else 'global'}"


def run():
    ck = Check("C02")
    tg = ck.pick(["gauss2", "expface"], ["gauss2", "expface", "bimodal", "vonmises", "expface_refl"])
    cf = ck.pick(CONFIGS4, CONFIGS8)
    Ns = ck.pick([128], [128, 512])
    R = ck.pick(48, 96)
    # one cell with a long history of large batches (pool x iterations > 2.5e6 mixture terms per weight evaluation): an evidence error
    # that only appears when the particle count is increased shows here.  ~30 s per run, hence its own replicate count; first in
    # the list so that its replicates start first
    cells = [dict(target="gauss2", N=4096, n_total=80000, mode="vec", kernel="tpcn", resample="mult", clustering=False, reps=ck.pick(16, 32))]
    cells += [dict(target=t, N=N, n_total=8 * N, mode="vec", **c) for t in tg for c in cf for N in Ns]
    for N in Ns:
        for kern in ("tpcn", "rwm"):
            cells.append(dict(target="gauss2", N=N, n_total=8 * N, mode="vec", kernel=kern, resample="syst", clustering=False, volume_variation=1.0))
            cells.append(dict(target="gauss4", N=N, n_total=8 * N, mode="vec", kernel=kern, resample="mult", clustering=False))
            if kern == "tpcn":     # posterior 1000x narrower than the prior; RWM's finite-N error there exceeds any fair allowance
                cells.append(dict(target="gauss2", N=N, n_total=8 * N, mode="vec", kernel=kern, resample="syst", clustering=False, tkw=dict(half=500.0, rho=0.5)))
    # dynamic mode with a small requested variation: the temperature is found by bisection strictly inside (beta_prev, ESS limit)
    for kern, vv in (("tpcn", 0.04), ("rwm", 0.02)):
        cells.append(dict(target="gauss2", N=128, n_total=1024, mode="vec", kernel=kern, resample="syst", clustering=False, volume_variation=vv))
    # a run stopped half-way and continued by a new sampler with four times / a quarter of the particles (stored batches of
    # different sizes): the evidence of the continued run is judged like any other
    cells.append(dict(target="gauss2", N=128, n_total=1024, mode="vec", kernel="tpcn", resample="syst", clustering=False, continue_with=512))
    cells.append(dict(target="gauss2", N=256, n_total=1024, mode="vec", kernel="rwm", resample="mult", clustering=False, continue_with=64))
    # prior transform written for one point, parameter by parameter (the documentation's idiom for non-trivial priors)
    cells.append(dict(target="gauss2", N=128, n_total=1024, mode="scalar", kernel="rwm", resample="syst", clustering=False, xstyle="indexed"))
    Nmax = max(Ns)
    store = {}

    def extract(cfg, sums):
        t = targets.make(cfg["target"], **cfg.get("tkw", {}))
        store.setdefault(ensemble.cell_key(cfg), []).extend(sums)
        return [("logZ", [s["logz"] for s in sums], t.logz, 1.0)]
    flagged = []
    # campaign with the hashing runner
    orig = ensemble.campaign
    ensemble.campaign = lambda ck_, cells_, R_, tag, func="tvf.checks.c02:run_with_hashes", timeout=900, R0=None: orig(ck_, cells_, R_, tag, func=func, timeout=timeout, R0=R0)
    try:
        table = ensemble.judge(ck, cells, extract, R, "c02", lambda cfg, name, r1, r2: flagged.append((cfg, r1, r2)))
    finally:
        ensemble.campaign = orig
    confirmed = {ensemble.cell_key(c) for c, _, _ in flagged}
    for cfg, r1, r2 in flagged:
        if not ck.quick and cfg["N"] < Nmax and ensemble.cell_key(dict(cfg, N=Nmax, n_total=8 * Nmax)) not in confirmed:
            ck.note(f"evidence offset at N={cfg['N']} not present at N={Nmax}: {cfg['target']} {cfg['kernel']} b={r1['b']:+.4f}")
            continue
        key = mech_key(cfg)
        if cfg["clustering"] and key.startswith("evidence-biased"):
            sib = [c for c in cells if c["target"] == cfg["target"] and c["kernel"] == cfg["kernel"] and c["N"] == cfg["N"] and not c["clustering"]]
            if sib and not any(ensemble.cell_key(c) in confirmed for c in sib):
                key = "clustering-state-dependent-kernel"     # same target/kernel/N without clustering is clean
        ck.violation(key, f"target {cfg['target']}, {cfg['kernel']}/{cfg['resample']}/clustering={cfg['clustering']}, N={cfg['N']}: mean logZ error "
                     f"{r1['b']:+.4f} +- {r1['se']:.4f} (z={r1['z']:.1f}); on 2R fresh seeds {r2['b']:+.4f} +- {r2['se']:.4f}", dict(cfg=cfg))
    ck.tables["logz"] = [dict(cell=r["cell"][:160], n=r["n"], b=r["b"], se=r["se"], z=r["z"], flag=r["flag"], stage=r.get("stage", 1)) for r in table]
    # (b) shared RNG states across seeds / within a run
    seen = {}
    n_states = 0
    for key, sums in store.items():
        for j, s in enumerate(sums):
            n_states += len(s["hashes"])
            if s["repeats"]:
                ck.violation("rng-state-repeats-within-run", f"the global RNG state at a step boundary recurred {s['repeats']} time(s) later in the same run "
                             f"(innovations replayed across iterations) in cell {key[:150]}", dict(cell=key))
            for h in s["hashes"]:
                if h in seen and seen[h] != (key, j):
                    ck.violation("rng-state-shared-across-seeds", f"two differently seeded runs reached the same global RNG state at a pipeline step boundary "
                                 f"(cells {seen[h][0][:100]} / {key[:100]}): their subsequent innovations are identical", dict(cell=key))
                    break
                seen[h] = (key, j)
    ck.event("RNG states hashed at pipeline step boundaries", n_states)
    ck.event("runs contributing RNG-state histories", sum(len(v) for v in store.values()))
    # (c) batch means
    if not ck.quick:
        G = 8
        for cfg in cells:
            key = ensemble.cell_key(cfg)
            z = np.array([s["logz"] for s in store.get(key, [])])
            if len(z) < 64:
                continue
            z = z[: (len(z) // G) * G]
            gm = z.reshape(G, -1).mean(1)
            m = z.size // G
            F = gm.var(ddof=1) * m / z.var(ddof=1)
            p = sst.f.sf(F, G - 1, z.size - G)
            ck.event("cells judged by the batch-means F test")
            if p < 1e-6:
                ck.violation("errors-dependent-across-seeds", f"variance of group means of logZ is {F:.1f}x var/R (p={p:.2g}) in cell {key[:150]}", dict(cfg=cfg))
    ck.require_events("ensemble cells judged by Rule S", "RNG states hashed at pipeline step boundaries")
    return ck.finish(
        rule=f"cells = target {tg} x configuration ({len(cf)}) x N {Ns} (n_total=8N) x R={R} seeds; logZ judged by Rule S against the closed form; "
             "RNG state hashed at entry/exit of every pipeline step of every run (consecutive equal states collapsed: a step that draws nothing is "
             "not a repeat); non-trivial = enough replicates completed",
        assumptions=["all randomness flows through numpy's global legacy stream", "closed-form evidences of tvf.targets (Gaussian tails outside the box < 1e-12)"],
    )

"""C07 - every stored or returned particle is a coherent (u, x, logL, blob) record.

Invariant at hooks: after Resampler.run, after Mutator.run, at every history commit, on the
dictionary returned by sample() and on posterior() outputs, every row is looked up in the
instrumented likelihood's evaluation log (x bytes -> logL, blob id -> (x, logL)) and x is
re-derived from u with the (pure) prior transform.
"""
from __future__ import annotations

import numpy as np

from tvf import attach, cover, farm, runs
from tvf.env import Check, fmt_exc
from tvf.records import coherent_rows

FACTORS = dict(
    target=["gauss2", "bimodal", "expface", "vonmises", "expface_refl", "support", "support-sparse", "mixedbc", "tailprior"],
    kernel=["tpcn", "rwm"], resample=["mult", "syst"], clustering=[False, True],
    mode=["vec", "scalar", "blobs", "blobs2", "blobs3"], metric=["ess", "vol"], N=[32, 64], cluster_every=[1, 2],
)


def to_cfg(row, seed):
    c = dict(target=row["target"], kernel=row["kernel"], resample=row["resample"], clustering=row["clustering"],
             mode=row["mode"], N=row["N"], n_total=row["N"] * 3, seed=seed, cluster_every=row["cluster_every"],
             volume_variation=(1.0 if row["metric"] == "vol" else None))
    if row["target"] == "support":
        c["tkw"] = dict(f=0.5)
    if row["target"] == "support-sparse":
        # ~90% of the prior has zero likelihood and batches are small: warm-up batches with only 1-2 finite draws
        c["target"] = "support"
        c["tkw"] = dict(f=0.1)
        c["N"] = 24
        c["n_total"] = 72
    if row["target"] == "mixedbc":
        c["target"] = "gauss4"
        c["tkw"] = dict(half=2.5)
        c["bc"] = ([0], [2])
    return c


def traced(cfg):
    from tempest.steps.mutate import Mutator
    from tempest.steps.resample import Resampler
    from tempest.state_manager import StateManager
    c = runs.full(cfg)
    if c.get("pool") == "tpe":
        from .c13 import make_tpe
        c["pool"] = make_tpe(4, c["seed"] + 3)       # a genuine concurrent.futures executor, calls finish out of order
    np.random.seed(c["seed"])
    s, t, like, pt = runs.build(c)
    bad = []
    cnt = dict(rows=0, boundaries=0)
    have_blobs = c["mode"] in ("blobs", "blobs2", "blobs3", "blobview", "blobsI", "blobsS")
    if isinstance(c.get("pool"), int) and c["pool"] > 1:
        import functools
        globals_cr = coherent_rows
        coherent = functools.partial(globals_cr, recompute=True)
    else:
        coherent = coherent_rows

    def check_current(where, sm, need_all=True):
        cur = sm.get_current()
        if cur["u"] is None or cur["logl"] is None:
            return
        if float(cur["beta"] or 0.0) == 0.0 and "Resampler" in where:
            return      # warm-up: resampling is skipped, current still holds the previous batch
        cnt["boundaries"] += 1
        cnt["rows"] += len(cur["logl"])
        for key, what in coherent(t, like, cur["u"], cur["x"], cur["logl"], cur["blobs"] if have_blobs else None, where):
            if len(bad) < 20:
                bad.append((key, what + f" [iter {cur['iter']}, beta {cur['beta']}]"))

    batches = []

    def mut_before(self, ms):
        return (self.state.get_current("beta"), like.n_points, like.n_inf)

    class AllZeroBatch(RuntimeError):
        pass

    def mut_after(ctx, r, self, ms):
        if ctx[0] == 0.0:
            batches.append((like.n_points - ctx[1], like.n_inf - ctx[2]))
            if batches[-1][0] > 0 and batches[-1][0] == batches[-1][1]:
                # known finding (C11/C07 all-zero-likelihood-batch) has manifested: the state is NaN from here on
                raise AllZeroBatch(f"warm-up batch of {batches[-1][0]} prior draws, all with zero likelihood, was stored")
        check_current("after Mutator.run", self.state)

    def all_zero():
        return any(n > 0 and n == k for n, k in batches)

    with attach.Hooks() as hk:
        hk.wrap(Resampler, "run", after=lambda ctx, r, self, w: check_current("after Resampler.run", self.state))
        hk.wrap(Mutator, "run", before=mut_before, after=mut_after)

        def after_commit(ctx, r, self, *a, **k):
            n = self.get_history_length()
            if n:
                cnt["boundaries"] += 1
                u, x, l = self.get_history("u", index=n - 1), self.get_history("x", index=n - 1), self.get_history("logl", index=n - 1)
                b = self.get_history("blobs", index=n - 1) if have_blobs else None
                cnt["rows"] += len(l)
                for key, what in coherent(t, like, u, x, l, b, f"history batch {n - 1} at commit"):
                    if len(bad) < 20:
                        bad.append((key, what))
        hk.wrap(StateManager, "commit_current_to_history", after=after_commit)
        it = 0
        via_run = bool(c.get("progress"))
        if not via_run:
            s._core._initialize_fresh()
            s._core.n_total = c["n_total"]
        try:
            if via_run:
                # the public run() with its progress display on (the default): same hooks, the loop is the library's own
                attach.iteration_budget(hk, 400)
                s.run(n_total=c["n_total"], progress=True)
                it = int(s.state.get_history_length())
            while not via_run and s._core._not_termination() and it < 400:
                st = s.sample()
                it += 1
                cnt["boundaries"] += 1
                cnt["rows"] += len(st["logl"])
                for key, what in coherent(t, like, st["u"], st["x"], st["logl"], st["blobs"] if have_blobs else None, "dict returned by sample()"):
                    if len(bad) < 20:
                        bad.append((key, what))
        except Exception as e:
            # the likelihood counters tell whether a whole warm-up batch had zero likelihood (known finding of C11)
            n_pts = like.n_points - sum(n for n, _ in batches)
            key = "all-zero-likelihood-batch" if (all_zero() or (like.n_inf - sum(k for _, k in batches) >= c["N"] and it < 8)) else "run-raises"
            bad = [b for b in bad if key != "all-zero-likelihood-batch" or b[0] != "stored-nonfinite-logl"]
            bad.append((key, f"{type(e).__name__}: {e}\n{fmt_exc()[-300:]}"))
            return dict(bad=bad, **cnt, iters=it, sparse=sum(1 for n, k in batches if 0 < n - k <= 2))
        if it >= 400:
            bad.append(("iteration-budget", "no termination within 400 iterations"))
    # whole history again at the end (commits must not have been altered later)
    H = runs.history(s)
    for i in range(len(H["logl"])):
        b = H["blobs"][i] if have_blobs and i < len(H["blobs"]) else None
        cnt["rows"] += len(H["logl"][i])
        for key, what in coherent(t, like, H["u"][i], H["x"][i], H["logl"][i], b, f"history batch {i} after the run"):
            if len(bad) < 20:
                bad.append((key, what))
    # returned posteriors
    for kw in (dict(), dict(resample=True), dict(trim_importance_weights=False, return_blobs=True), dict(resample=True, return_blobs=True, ess_trim=0.8, bins_trim=20)):
        np.random.seed(99)
        res = s.posterior(**kw)
        x, w, l = res[:3]
        b = res[3] if (kw.get("return_blobs") and have_blobs) else None
        cnt["rows"] += len(l)
        for key, what in coherent(t, like, None, x, l, b, f"posterior({kw})"):
            if len(bad) < 20:
                bad.append((key, what))
    if all_zero():
        bad = [(("all-zero-likelihood-batch" if k == "stored-nonfinite-logl" else k), w) for k, w in bad]
    return dict(bad=bad, **cnt, iters=it, sparse=sum(1 for n, k in batches if 0 < n - k <= 2))


def traced_reuse(cfg, variant):
    """A sampler object that has already sampled gets another history loaded (a checkpoint of another run - if possible one
    with the same number of iterations - or an earlier checkpoint of its own) and goes on.  Every record at every step
    boundary afterwards, and everything returned, must still be one evaluation of the likelihood: anything the object
    remembers about the history it held before must have died with it."""
    import os, shutil
    from tempest.steps.mutate import Mutator
    from tempest.steps.resample import Resampler
    from tempest.state_manager import StateManager
    from tvf.checks.c08 import tmpdir
    c = runs.full(cfg)
    have_blobs = c["mode"] in ("blobs", "blobs2", "blobs3", "blobview", "blobsI", "blobsS")
    tmp = tmpdir()
    bad = []
    cnt = dict(rows=0, boundaries=0, same_length=0, iters_after=0)
    try:
        np.random.seed(c["seed"])
        sA, t, like, pt = runs.build(dict(c, output_dir=tmp, output_label="a"))
        sA.run(n_total=c["n_total"], progress=runs.prog(c), save_every=1)
        files = {}
        for f in os.listdir(tmp):
            if f.startswith("a_") and f.endswith(".state") and "final" not in f:
                files[int(f.split("_")[1].split(".")[0])] = os.path.join(tmp, f)
        if not files:
            return dict(bad=[("harness", "no checkpoint written")], **cnt)
        if variant == "rewind":
            s = sA
            for _ in range(2):
                s.sample()
            pick = files[sorted(files)[len(files) // 2]]
        else:
            np.random.seed(c["seed"] + 1)
            s, _, _, _ = runs.build(c, like=like)          # the same likelihood object: one evaluation log for both runs
            s.run(n_total=c["n_total"], progress=runs.prog(c))
            if variant == "results-first":
                s.results()
                s.posterior()
            TB = s.state.get_history_length()
            pick = None
            cands = dict(files)
            fin = os.path.join(tmp, "a_final.state")
            if os.path.exists(fin):
                cands[10 ** 6] = fin
            lens = {}
            for k in sorted(cands):
                probe, _, _, _ = runs.build(c, like=like)
                probe.load_state(cands[k])
                lens[k] = probe.state.get_history_length()
            same = [k for k in lens if lens[k] == TB]
            if same:
                pick = cands[same[0]]
                cnt["same_length"] = 1
            else:
                pick = cands[min(lens, key=lambda k: abs(lens[k] - TB))]

        def rows(where, u, x, l, b):
            cnt["boundaries"] += 1
            cnt["rows"] += len(l)
            for key, what in coherent_rows(t, like, u, x, l, b if have_blobs else None, where):
                if len(bad) < 20:
                    bad.append((key, f"[{variant}] " + what))

        def check_current(where, sm):
            if sm is not s.state:
                return
            cur = sm.get_current()
            if cur["u"] is None or cur["logl"] is None:
                return
            if float(cur["beta"] or 0.0) == 0.0 and "Resampler" in where:
                return
            rows(where, cur["u"], cur["x"], cur["logl"], cur["blobs"])

        def after_commit(ctx, r, self, *a, **k):
            n = self.get_history_length()
            if n and self is s.state:
                cnt["iters_after"] += 1
                rows(f"history batch {n - 1} at commit (after the reload)", self.get_history("u", index=n - 1), self.get_history("x", index=n - 1),
                     self.get_history("logl", index=n - 1), self.get_history("blobs", index=n - 1) if have_blobs else None)

        def whole(where):
            H = runs.history(s)
            for i in range(len(H["logl"])):
                b = H["blobs"][i] if have_blobs and i < len(H["blobs"]) else None
                rows(f"history batch {i} {where}", H["u"][i], H["x"][i], H["logl"][i], b)
            for kw in (dict(), dict(resample=True), dict(trim_importance_weights=False, return_blobs=True)):
                np.random.seed(99)
                res = s.posterior(**kw)
                x, w, l = res[:3]
                rows(f"posterior({kw}) {where}", None, x, l, res[3] if (kw.get("return_blobs") and have_blobs) else None)
            fl = s.state.get_history("logl", flat=True)
            fx = s.state.get_history("x", flat=True)
            fu = s.state.get_history("u", flat=True)
            rows(f"flattened history {where}", fu, fx, fl, s.state.get_history("blobs", flat=True) if have_blobs else None)

        with attach.Hooks() as hk:
            hk.wrap(Resampler, "run", after=lambda ctx, r, self, w: check_current("after Resampler.run (after the reload)", self.state))
            hk.wrap(Mutator, "run", after=lambda ctx, r, self, ms: check_current("after Mutator.run (after the reload)", self.state))
            hk.wrap(StateManager, "commit_current_to_history", after=after_commit)
            attach.iteration_budget(hk, 400)
            if variant == "load":
                s.load_state(pick)
                whole("right after load_state")
            s.run(n_total=2 * c["n_total"], progress=runs.prog(c), resume_state_path=pick)
        whole("after the resumed run")
    except Exception as e:
        bad.append(("reuse-run-raises", f"[{variant}] {type(e).__name__}: {e}\n{fmt_exc()[-300:]}"))
    finally:
        shutil.rmtree(tmp, ignore_errors=True)
    return dict(bad=bad, **cnt)


def run():
    ck = Check("C07")
    rng = ck.rng("lattice")
    rows = cover.covering(FACTORS, ck.pick(2, 3), rng)
    if not ck.quick:
        for extra in range(4):     # four more independently generated 3-wise arrays (different rows, different seeds)
            rows += cover.covering(FACTORS, 3, ck.rng("lattice", extra))
    if ck.quick and len(rows) > 24:
        rows = rows[:24]
    ck.tables["pairwise_coverage"] = cover.coverage(rows, FACTORS, 2)
    ck.tables["threeway_coverage"] = cover.coverage(rows, FACTORS, 3)
    # every other configuration runs with the progress display on (the default of run(); the bar writes to the worker's stderr)
    tasks = [("tvf.checks.c07:traced", dict(cfg=dict(to_cfg(r, ck.subseed("cfg", i)), progress=bool(i % 2))), None) for i, r in enumerate(rows)]
    # dedicated workload for the replacement of zero-likelihood prior draws: sparse support x blobs x several seeds
    for j in range(ck.pick(12, 60)):
        row = dict(target="support-sparse", kernel=["tpcn", "rwm"][j % 2], resample=["mult", "syst"][(j // 2) % 2], clustering=bool((j // 4) % 2),
                   mode=["blobs", "blobs2", "blobs3", "scalar"][j % 4], metric="ess", N=24, cluster_every=1)
        tasks.append(("tvf.checks.c07:traced", dict(cfg=dict(to_cfg(row, ck.subseed("sparse", j)), ess_ratio=3.0)), None))
    for j in range(ck.pick(4, 16)):
        row = dict(target="tailprior", kernel=["tpcn", "rwm"][j % 2], resample=["mult", "syst"][(j // 2) % 2], clustering=False,
                   mode=["vec", "scalar", "blobs", "blobs3"][j % 4], metric="ess", N=48, cluster_every=1)
        tasks.append(("tvf.checks.c07:traced", dict(cfg=to_cfg(row, ck.subseed("tail", j))), None))
    # unit-cube prior whose transform is the identity and returns its argument (x and u are one object unless the library copies)
    for j in range(ck.pick(4, 12)):
        row = dict(target=["expface", "support", "expface_refl"][j % 3], kernel=["tpcn", "rwm"][j % 2], resample=["mult", "syst"][(j // 2) % 2],
                   clustering=bool(j % 2), mode=["vec", "scalar", "blobs", "blobs3"][j % 4], metric=["ess", "vol"][(j // 2) % 2], N=[32, 48][j % 2], cluster_every=1)
        tasks.append(("tvf.checks.c07:traced", dict(cfg=dict(to_cfg(row, ck.subseed("alias", j)), xalias=True)), None))
    # large batches through a vectorised likelihood that returns a read-only view of a buffer it reuses (block-wise evaluation
    # paths must copy each block before the next call overwrites it)
    for j, N in enumerate(ck.pick([1100], [1100, 2500, 1025, 4100])):
        row = dict(target=["gauss2", "bimodal"][j % 2], kernel=["tpcn", "rwm"][j % 2], resample=["syst", "mult"][j % 2], clustering=False,
                   mode="vec", metric="ess", N=N, cluster_every=1)
        cfgb = dict(to_cfg(row, ck.subseed("bigvec", j)), ro_buffer=True)
        cfgb["n_total"] = 2 * N
        tasks.append(("tvf.checks.c07:traced", dict(cfg=cfgb), None))
    # prior transform written for one point, parameter by parameter (not row-wise broadcastable)
    for j in range(ck.pick(4, 12)):
        row = dict(target=["gauss2", "bimodal", "gauss4", "vonmises"][j % 4], kernel=["tpcn", "rwm"][j % 2], resample=["mult", "syst"][(j // 2) % 2],
                   clustering=bool(j % 2), mode=["scalar", "vec", "blobs", "blobs2"][j % 4], metric=["ess", "vol"][(j // 2) % 2], N=[32, 48][j % 2], cluster_every=1)
        tasks.append(("tvf.checks.c07:traced", dict(cfg=dict(to_cfg(row, ck.subseed("indexed", j)), xstyle="indexed")), None))
    # likelihood evaluated in worker processes (integer pool): records are judged by re-evaluating the pure likelihood
    for j in range(ck.pick(2, 6)):
        row = dict(target=["gauss2", "bimodal", "support"][j % 3], kernel=["tpcn", "rwm"][j % 2], resample=["syst", "mult"][j % 2], clustering=bool(j % 2),
                   mode="scalar", metric="ess", N=[32, 27][j % 2], cluster_every=1)
        tasks.append(("tvf.checks.c07:traced", dict(cfg=dict(to_cfg(row, ck.subseed("ipool", j)), pool=[2, 3][j % 2])), None))
    # the blob is the likelihood's argument itself ("return logl, x"): a reference to whatever array the library handed over
    for j in range(ck.pick(4, 12)):
        row = dict(target=["gauss2", "bimodal", "support", "gauss4"][j % 4], kernel=["tpcn", "rwm"][j % 2], resample=["syst", "mult"][(j // 2) % 2], clustering=bool(j % 2),
                   mode="blobview", metric="ess", N=[32, 27][j % 2], cluster_every=1)
        tasks.append(("tvf.checks.c07:traced", dict(cfg=dict(to_cfg(row, ck.subseed("bview", j)), pool=[None, "tpe", 2, None][j % 4], progress=bool(j % 3 == 0), xalias=(j % 4 == 2 and j % 8 == 2))), None))
    # blobs that are not floats: 64-bit integer labels above 2^53 and string labels (object dtype)
    for j in range(ck.pick(4, 12)):
        row = dict(target=["gauss2", "support", "bimodal", "expface"][j % 4], kernel=["tpcn", "rwm"][j % 2], resample=["syst", "mult"][(j // 2) % 2], clustering=bool(j % 2),
                   mode=["blobsI", "blobsS"][j % 2], metric=["ess", "vol"][(j // 2) % 2], N=[32, 27][j % 2], cluster_every=1)
        tasks.append(("tvf.checks.c07:traced", dict(cfg=dict(to_cfg(row, ck.subseed("btype", j)), progress=bool(j % 4 == 1), pool=[None, None, "tpe", None][j % 4])), None))
    # likelihood evaluated through a real concurrent.futures.ThreadPoolExecutor whose calls complete out of order
    for j in range(ck.pick(3, 8)):
        row = dict(target=["gauss2", "bimodal", "support", "vonmises"][j % 4], kernel=["tpcn", "rwm"][j % 2], resample=["syst", "mult"][(j // 2) % 2], clustering=bool(j % 2),
                   mode=["scalar", "blobs", "blobs2"][j % 3], metric="ess", N=[32, 27][j % 2], cluster_every=1)
        tasks.append(("tvf.checks.c07:traced", dict(cfg=dict(to_cfg(row, ck.subseed("tpe", j)), pool="tpe")), None))
    for i, st, val in farm.run(tasks, timeout=900, progress="C07"):
        cfg = tasks[i][1]["cfg"]
        if st == "timeout":
            ck.inconc(f"{cfg}: watchdog")
            continue
        if st != "ok":
            ck.violation("run-crashed", f"{cfg}: {st} {str(val)[-400:]}", dict(cfg=cfg))
            continue
        ck.case(dict(cfg=cfg), nontrivial=val["iters"] > 2)
        ck.event("monitored runs")
        if cfg.get("ro_buffer") and cfg.get("N", 0) > 1024:
            ck.event("monitored runs with more than 1024 particles through a buffer-reusing vectorised likelihood")
        if cfg.get("xstyle"):
            ck.event("monitored runs whose prior transform is written for one point, parameter by parameter")
        if cfg.get("xalias"):
            ck.event("monitored runs whose prior transform returns its argument (identity on the unit cube)")
        if cfg.get("mode") in ("blobsI", "blobsS"):
            ck.event("monitored runs whose blobs are 64-bit integers above 2^53 or strings")
        if cfg.get("mode") == "blobview":
            ck.event("monitored runs whose blob is the likelihood's own argument (a reference)")
        if cfg.get("progress"):
            ck.event("monitored runs with the progress display on (run()'s default)")
        if cfg.get("pool") == "tpe":
            ck.event("monitored runs whose likelihood is evaluated through a concurrent.futures.ThreadPoolExecutor")
        if isinstance(cfg.get("pool"), int):
            ck.event("monitored runs whose likelihood is evaluated in worker processes (integer pool)")
        ck.event("step boundaries checked", val["boundaries"])
        ck.event("particle rows looked up in the evaluation log", val["rows"])
        ck.event("warm-up batches with only 1-2 finite-likelihood draws", val.get("sparse", 0))
        seen = set()
        for key, what in val["bad"]:
            if key in seen:
                continue
            seen.add(key)
            ck.violation(key, what, dict(cfg=cfg))
    # a used sampler object gets another history loaded and continues
    rt = []
    variants = ["resume", "results-first", "load", "rewind"]
    for j in range(ck.pick(8, 48)):
        row = dict(target=["gauss2", "bimodal", "expface", "gauss4"][j % 4], kernel=["tpcn", "rwm"][j % 2], resample=["mult", "syst"][(j // 2) % 2],
                   clustering=bool((j // 2) % 2), mode=["vec", "scalar", "blobs", "blobs3", "blobs2"][j % 5], metric=["ess", "vol"][(j // 3) % 2],
                   N=[32, 48][j % 2], cluster_every=[1, 2, 3][j % 3])
        rt.append(("tvf.checks.c07:traced_reuse", dict(cfg=to_cfg(row, ck.subseed("reuse", j)), variant=variants[j % 4]), None))
    for i, st, val in farm.run(rt, timeout=900, progress="C07-reuse"):
        kw = rt[i][1]
        if st == "timeout":
            ck.inconc(f"reuse {kw}: watchdog")
            continue
        if st != "ok":
            ck.violation("run-crashed", f"{kw}: {st} {str(val)[-400:]}", kw)
            continue
        ck.case(dict(reuse=kw), nontrivial=val["iters_after"] > 0)
        ck.event("used sampler objects that had another history loaded and went on")
        ck.event("... of which the loaded history had as many iterations as the object's own", val["same_length"])
        ck.event("iterations committed after such a reload", val["iters_after"])
        ck.event("step boundaries checked", val["boundaries"])
        ck.event("particle rows looked up in the evaluation log", val["rows"])
        seen = set()
        for key, what in val["bad"]:
            if key not in seen:
                seen.add(key)
                ck.violation(key, what, kw)
    ck.require_events("monitored runs", "step boundaries checked", "particle rows looked up in the evaluation log",
                      "used sampler objects that had another history loaded and went on", "iterations committed after such a reload")
    return ck.finish(
        rule="pairwise (quick, <= 24 rows) / 3-wise (thorough) covering array over target {interior, bimodal, hard face, periodic, reflective, "
             "zero-likelihood region, mixed periodic+reflective} x kernel x resampler x clustering x vec/scalar/blobs x metric mode x N x "
             "cluster_every; rows checked after Resampler.run, after Mutator.run, at commit, on sample() and posterior() outputs and on the whole "
             "history after the run; non-trivial = run had more than two iterations",
        assumptions=["the user's prior transform and likelihood are pure (the monitors re-evaluate the transform)"],
    )

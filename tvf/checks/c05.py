"""C05 - temperature schedule is monotone, bounded and ESS-controlled.

Invariant at a hook on the real Reweighter.run(): the pool (history before the iteration)
is snapshotted, and the recorded beta / logZ / ESS and the returned weight vector are
compared with the long-double reference at the *recorded* beta; the ESS floor is checked
with the reference ESS; in volume mode the ESS-limited beta is read at the hooked
_find_beta_upper_limit and validated independently.
Workloads: synthetic pools pushed through Reweighter.run, and monitored real runs.
"""
from __future__ import annotations

import os

import numpy as np

from tvf import attach, farm, runs
from tvf.env import Check, fmt_exc
from tvf.oracles import mis_ref


def judge(pool, beta_prev, target_ess, vol_mode, rec, weights, limit):
    """pool = (logl_batches, betas, logzs).  rec = dict(beta, logz, ess)."""
    bad = []
    beta = rec["beta"]
    if not (beta >= beta_prev):
        bad.append(("beta-decreased", f"beta went from {beta_prev!r} to {beta!r}"))
    if not (0.0 <= beta <= 1.0):
        bad.append(("beta-out-of-range", f"beta={beta!r}"))
        return bad
    lwu, lwn, lz, ess = mis_ref(pool[0], pool[1], pool[2], beta)
    ess = float(ess)
    advanced = beta > beta_prev
    if advanced and not vol_mode:
        if ess < target_ess * (1 - 1e-9):
            bad.append(("ess-below-target", f"beta advanced {beta_prev!r} -> {beta!r} where the pool's reference ESS is {ess:.6f} < target {target_ess}"))
    if vol_mode and limit is not None:
        if beta > limit + 1e-12:
            bad.append(("beyond-ess-limit", f"volume mode: beta={beta!r} beyond the ESS-limited beta {limit!r}"))
        if limit > beta_prev:
            _, _, _, el = mis_ref(pool[0], pool[1], pool[2], limit)
            if float(el) < target_ess * (1 - 1e-9):
                bad.append(("ess-limit-wrong", f"volume mode: reported ESS limit beta={limit!r} has reference ESS {float(el):.6f} < {target_ess}"))
            if advanced and ess < target_ess * (1 - 1e-9):
                # beta <= limit does not imply ESS >= target unless ESS is monotone; report only gross violations
                pass
    if abs(rec["ess"] - ess) > 1e-6 * max(1.0, ess):
        _, _, _, e_prev = mis_ref(pool[0], pool[1], pool[2], beta_prev)
        bad.append(("recorded-ess-other-beta", f"recorded ESS {rec['ess']!r} but the reference ESS at the recorded beta={beta!r} is {ess!r} "
                    f"(at beta_prev it is {float(e_prev)!r})"))
    scale = 1.0 + abs(float(lz)) + float(np.max(np.abs(np.concatenate(pool[0]))))
    if abs(rec["logz"] - float(lz)) > 1e-8 * scale:
        _, _, z_prev, _ = mis_ref(pool[0], pool[1], pool[2], beta_prev)
        bad.append(("recorded-logz-other-beta", f"recorded logZ {rec['logz']!r} but the reference at the recorded beta={beta!r} is {float(lz)!r} "
                    f"(at beta_prev it is {float(z_prev)!r})"))
    w = np.asarray(weights, float)
    ref = np.exp(np.asarray(lwn, dtype=np.longdouble)).astype(float)
    if w.shape != ref.shape:
        bad.append(("weights-shape", f"returned {w.shape} weights for a pool of {ref.shape}"))
    else:
        if abs(w.sum() - 1) > 1e-9 or np.any(w < 0):
            bad.append(("weights-not-normalised", f"returned weights sum to {w.sum()!r}"))
        if not np.allclose(w, ref, rtol=1e-6, atol=1e-14):
            bad.append(("weights-other-beta", f"weights handed to training/resampling are not the normalised weights at the recorded beta={beta!r} "
                        f"(max abs diff {np.max(np.abs(w - ref)):.3g})"))
    return bad


def gen_pool(rng):
    T = int(rng.integers(1, 9))
    d = 2
    N = int(rng.choice([16, 32, 64]))
    ns = [N if rng.random() < 0.7 else int(rng.integers(4, 2 * N)) for _ in range(T)]
    scale = 10 ** rng.uniform(-0.5, 2.5)
    k = int(rng.integers(1, T + 1))
    betas = np.concatenate([np.zeros(k), np.sort(rng.random(T - k)) * rng.choice([0.05, 0.3, 1.0])])
    kind = str(rng.choice(["quadratic", "flat", "peaked", "heavy", "needle"], p=[0.23, 0.23, 0.23, 0.23, 0.08]))
    needle_amp = 10 ** (5 + 4 * (np.log10(scale) + 0.5) / 3.0)
    logl, us = [], []
    for t in range(T):
        u = rng.random((ns[t], d))
        r2 = np.sum((u - 0.5) ** 2, axis=1)
        # "needle": log-likelihood range 1e5..1e9 over the pool - the ESS-admissible step is shorter than the resolution of
        # the temperature search (1e-4), so no tested temperature above the current one is admissible
        l = {"quadratic": -scale * r2, "flat": -1e-3 * scale * r2, "peaked": -100 * scale * r2, "heavy": -scale * np.log1p(50 * r2),
             "needle": -needle_amp * r2}[kind]
        # particles of later batches concentrate as beta grows
        if betas[t] > 0:
            l = l * (1 - 0.8 * betas[t])
        logl.append(l)
        us.append(u)
    stalled = 0
    if rng.random() < 0.06:
        # a long tail of iterations recorded at ONE intermediate temperature (annealing that does not get anywhere: 20 ... 120 batches),
        # drawn far from that temperature's target, so the pool's ESS there stays of the order of the configured target
        stalled = int(rng.choice([20, 49, 50, 51, 75, 120]))
        b_st = float(betas[-1]) if 0 < betas[-1] < 1 else float(rng.uniform(0.05, 0.9))
        N = int(rng.choice([16, 32]))
        for _ in range(stalled):
            u = rng.random((N, d))
            r2 = np.sum((u - 0.5) ** 2, axis=1)
            l = {"quadratic": -scale * r2, "flat": -1e-3 * scale * r2, "peaked": -100 * scale * r2, "heavy": -scale * np.log1p(50 * r2),
                 "needle": -needle_amp * r2}[kind]
            logl.append(l * (1 - 0.8 * b_st))
            us.append(u)
            ns.append(N)
        betas = np.concatenate([betas, np.full(stalled, b_st)])
        T = T + stalled
    # consistent-ish logz_t: sequential estimates from the reference itself
    logz = np.zeros(T)
    for t in range(1, T):
        _, _, z, _ = mis_ref(logl[:t], betas[:t], logz[:t], betas[t])
        logz[t] = float(z) + 0.05 * rng.standard_normal()
    er = float(rng.choice([0.5, 1.0, 2.0, 3.5]))
    if stalled:
        # target of the order of the ESS the pool has at the stalled temperature (between a third of it and three times it)
        _, _, _, e_st = mis_ref(logl, betas, logz, float(betas[-1]))
        er = float(e_st) / N * float(rng.choice([0.34, 0.6, 0.9, 1.5, 3.0]))
        kind = kind + "+stalled"
    vol = None if rng.random() < 0.6 else float(rng.choice([0.2, 1.0, 5.0]))
    return dict(T=T, N=N, ns=ns, us=us, logl=logl, betas=betas, logz=logz, ess_ratio=er, vol=vol, kind=kind, scale=float(scale))


def pool_case(p):
    from tempest.state_manager import StateManager
    from tempest.steps.reweight import Reweighter
    from tempest.config import ESS_TOLERANCE, BETA_TOLERANCE
    sm = StateManager(2)
    for t in range(p["T"]):
        sm.update_current(dict(u=p["us"][t], x=p["us"][t].copy(), logl=p["logl"][t], beta=float(p["betas"][t]), logz=float(p["logz"][t]), iter=t + 1))
        sm.commit_current_to_history()
    rw = Reweighter(sm, None, n_particles=p["N"], ess_ratio=p["ess_ratio"], volume_variation=p["vol"], ESS_TOLERANCE=ESS_TOLERANCE, BETA_TOLERANCE=BETA_TOLERANCE)
    limits = []
    with attach.Hooks() as hk:
        hk.wrap(Reweighter, "_find_beta_upper_limit", after=lambda ctx, r, *a, **k: limits.append(float(r)))
        beta_prev = float(p["betas"][-1])
        w = rw.run()
        nlim = hk.count["Reweighter._find_beta_upper_limit"]
    rec = dict(beta=float(sm.get_current("beta")), logz=float(sm.get_current("logz")), ess=float(sm.get_current("ess")))
    bad = judge((p["logl"], p["betas"], p["logz"]), beta_prev, p["ess_ratio"] * p["N"], p["vol"] is not None, rec, w, limits[-1] if limits else None)
    if int(sm.get_current("iter")) != p["T"] + 1:
        bad.append(("iter-not-incremented", f"iter {sm.get_current('iter')} after iteration {p['T']}"))
    return bad, rec["beta"] > beta_prev, nlim


def big_pool_case(seed, vol):
    """A persistent pool of more than 2**17 samples (9 iterations of 16384 particles) with a handful of sharply peaked samples at
    odd positions: every shortcut that looks at part of the pool while searching sees another ESS than the whole pool has."""
    rng = np.random.default_rng(seed)
    T, N = 9, 16384
    betas = np.concatenate([[0.0, 0.0], np.sort(rng.uniform(0.02, 0.3, T - 2))])
    us, logl = [], []
    for t in range(T):
        u = rng.random((N, 2)) if betas[t] == 0 else np.clip(0.5 + 0.25 * rng.standard_normal((N, 2)), 0, 1)
        l = -8.0 * np.sum((u - 0.5) ** 2, axis=1)
        us.append(u)
        logl.append(l)
    for k in range(3):          # three samples with a much higher likelihood, at odd flat positions
        t_ = int(rng.integers(2, T))
        j_ = 2 * int(rng.integers(0, N // 2)) + 1
        logl[t_][j_] = 40.0 + 5.0 * k
    logz = np.zeros(T)
    for t in range(1, T):
        logz[t] = float(mis_ref(logl[:t], betas[:t], logz[:t], betas[t])[2])
    p = dict(T=T, N=N, ns=[N] * T, us=us, logl=logl, betas=betas, logz=logz, ess_ratio=2.0, vol=vol, kind="big-pool", scale=8.0)
    bad, adv, nlim = pool_case(p)
    return bad, adv, nlim, dict(T=T, N=N, vol=vol, pool=T * N)


def sequence_case(seed):
    """Several consecutive iterations through ONE Reweighter instance on a growing synthetic history (state that
    the reweighter carries from iteration to iteration is part of what is judged).  Directed variant: a batch that
    contains a newly found narrow spike arrives after the pool had already been admissible up to beta=1."""
    from tempest.state_manager import StateManager
    from tempest.steps.reweight import Reweighter
    from tempest.config import ESS_TOLERANCE, BETA_TOLERANCE
    rng = np.random.default_rng(seed)
    d = 2
    N = int(rng.choice([16, 32]))
    er = float(rng.choice([1.0, 2.0]))
    vol = None if rng.random() < 0.35 else float(rng.choice([0.05, 0.2, 0.5]))
    directed = rng.random() < 0.6
    scale = 10 ** rng.uniform(-1.5, 0.5)
    sm = StateManager(d)
    rw = Reweighter(sm, None, n_particles=N, ess_ratio=er, volume_variation=vol, ESS_TOLERANCE=ESS_TOLERANCE, BETA_TOLERANCE=BETA_TOLERANCE)
    sm.update_current(dict(iter=0, beta=0.0, logz=0.0, calls=0))
    limits = []
    bad = []
    stats = dict(steps=0, advanced=0, limit_one_then_less=0)
    saw_one = False
    T = int(rng.integers(5, 10))
    spike_at = int(rng.integers(3, T)) if directed else None
    with attach.Hooks() as hk:
        hk.wrap(Reweighter, "_find_beta_upper_limit", after=lambda ctx, r, *a, **k: limits.append(float(r)))
        for t in range(T):
            H = ([np.asarray(l) for l in sm._history["logl"]], [float(b) for b in sm._history["beta"]], [float(z) for z in sm._history["logz"]])
            beta_prev = float(sm.get_current("beta"))
            # the same step on a fresh Reweighter over a copy of the state (differential oracle for remembered state)
            sm2 = StateManager.from_dict(sm.to_dict())
            rw2 = Reweighter(sm2, None, n_particles=N, ess_ratio=er, volume_variation=vol, ESS_TOLERANCE=ESS_TOLERANCE, BETA_TOLERANCE=BETA_TOLERANCE)
            try:
                w2 = rw2.run()
                fresh = (float(sm2.get_current("beta")), float(sm2.get_current("logz")), float(sm2.get_current("ess")), np.asarray(w2).copy())
            except Exception:
                fresh = None
            limits.clear()
            try:
                w = rw.run()
            except Exception:
                bad.append(("exception", fmt_exc()[-400:]))
                break
            if fresh is not None and H[0]:
                if (fresh[0], fresh[1], fresh[2]) != (float(sm.get_current("beta")), float(sm.get_current("logz")), float(sm.get_current("ess"))) \
                        or not np.array_equal(fresh[3], np.asarray(w)):
                    bad.append(("reweighter-depends-on-its-past", f"step {t + 1}: long-lived Reweighter chose beta={float(sm.get_current('beta'))!r}, a fresh one on the "
                                f"same state chooses {fresh[0]!r} [vol={vol}, directed={directed}]"))
                    break
            rec = dict(beta=float(sm.get_current("beta")), logz=float(sm.get_current("logz")), ess=float(sm.get_current("ess")))
            if H[0]:
                stats["steps"] += 1
                if rec["beta"] > beta_prev:
                    stats["advanced"] += 1
                if limits:
                    if limits[-1] >= 1.0:
                        saw_one = True
                    elif saw_one:
                        stats["limit_one_then_less"] += 1
                for kv in judge(H, beta_prev, er * N, vol is not None, rec, w, limits[-1] if limits else None):
                    bad.append((kv[0], kv[1] + f" [step {t + 1} of a {T}-step sequence through one Reweighter; vol={vol}, directed={directed}]"))
                if bad:
                    break
            # the mutation step would now produce the next batch at the recorded beta
            u = rng.random((N, d))
            r2 = np.sum((u - 0.5) ** 2, axis=1)
            l = -scale * r2
            if spike_at is not None and t >= spike_at:
                k = int(rng.integers(1, 4))
                l[:k] += 10 ** rng.uniform(1.0, 2.5)          # newly discovered narrow, much higher mode
            sm.update_current(dict(u=u, x=u.copy(), logl=l))
            sm.commit_current_to_history()
    return bad, stats, dict(N=N, ess_ratio=er, vol=vol, directed=bool(directed), T=T)


def _seq_batch(seeds):
    out = []
    for sd in seeds:
        try:
            out.append((sd,) + sequence_case(sd))
        except Exception:
            out.append((sd, [("exception", fmt_exc()[-400:])], {}, {}))
    return out


def _batch(seed, start, count):
    os.environ["VERIF_SEED"] = str(seed)
    ck = Check("C05")
    res = []
    for i in range(start, start + count):
        rng = ck.rng("pool", i)
        p = gen_pool(rng)
        desc = dict(T=p["T"], N=p["N"], ns=p["ns"][:5], kind=p["kind"], ess_ratio=p["ess_ratio"], vol=p["vol"], beta_prev=float(p["betas"][-1]))
        try:
            bad, adv, nlim = pool_case(p)
        except Exception:
            bad, adv, nlim = [("exception", fmt_exc()[-500:])], False, 0
        res.append((i, desc, bad, adv, nlim))
    return res


def real_case(cfg, pin=None, pin_limit=None):
    """pin_limit: None, or a value in (1-2e-4, 1) injected as the ESS-limited upper temperature (attach.pin_limit): the real
    code then decides, weighs, records and finalises an iteration at a temperature inside the last 1e-4 below one.
    pin: None, or a value in (1-2e-4, 1): once, late in the run, the temperature the reweighter recorded is replaced by
    `pin` (an injected reweighter decision inside the last 2e-4 below one, which ordinary runs step over).  Whatever the
    reweighter recorded for an iteration with beta > 0 must be exactly what that iteration commits."""
    from tempest.steps.reweight import Reweighter
    from tempest.state_manager import StateManager
    c = runs.full(cfg)
    np.random.seed(c["seed"])
    s, t, like, pt = runs.build(c)
    bad = []
    stats = dict(iters=0, advanced=0, limits=0, commits=0, pinned=0)
    limits = []
    recorded = {}
    with attach.Hooks() as hk:
        def commit_before(self, *a, **k):
            if self is not s.state or "beta" not in recorded:
                return
            cur = {k2: self.get_current(k2) for k2 in ("beta", "logz", "ess")}
            stats["commits"] += 1
            if recorded["beta"] > 0:
                for k2 in ("beta", "ess", "logz"):
                    if float(cur[k2]) != float(recorded[k2]) and len(bad) < 10:
                        bad.append(("committed-other-temperature", f"iteration {stats['iters']}: the reweighting step recorded {k2}={recorded[k2]!r} "
                                    f"(beta={recorded['beta']!r}) but the iteration commits {k2}={float(cur[k2])!r}"))
        hk.wrap(StateManager, "commit_current_to_history", before=commit_before)
        pl = attach.pin_limit(hk, pin_limit)          # inner wrapper: the limit observed below is the injected one
        hk.wrap(Reweighter, "_find_beta_upper_limit", after=lambda ctx, r, *a, **k: limits.append(float(r)))

        inner = {"on": False}

        def before(self):
            if inner["on"]:
                return None
            H = runs.history(s)
            limits.clear()
            # differential oracle: a FRESH reweighter on a copy of the same state must decide exactly the same thing as the
            # long-lived one (anything a Reweighter remembers from earlier iterations must not change its answer)
            fresh = None
            try:
                from tempest.state_manager import StateManager as SM
                sm2 = SM.from_dict(self.state.to_dict())
                rw2 = Reweighter(sm2, None, n_particles=self.n_particles, ess_ratio=self.ess_ratio, volume_variation=self.volume_variation,
                                 ESS_TOLERANCE=self.ESS_TOLERANCE, BETA_TOLERANCE=self.BETA_TOLERANCE)
                inner["on"] = True
                keep = list(limits)
                w2 = rw2.run()
                limits[:] = keep
                fresh = (float(sm2.get_current("beta")), float(sm2.get_current("logz")), float(sm2.get_current("ess")), np.asarray(w2).copy())
            except Exception as e:
                fresh = ("error", repr(e))
            finally:
                inner["on"] = False
            return (H["logl"], [float(b) for b in H["beta"]], [float(z) for z in H["logz"]], float(self.state.get_current("beta")), fresh)

        def after(ctx, w, self):
            if ctx is None:
                return
            logl, betas, logzs, beta_prev, fresh = ctx
            stats["iters"] += 1
            rec = dict(beta=float(self.state.get_current("beta")), logz=float(self.state.get_current("logz")), ess=float(self.state.get_current("ess")))
            if fresh is not None and fresh[0] != "error":
                stats["fresh"] = stats.get("fresh", 0) + 1
                same = (fresh[0] == rec["beta"] and fresh[1] == rec["logz"] and fresh[2] == rec["ess"] and fresh[3].shape == np.shape(w)
                        and np.array_equal(fresh[3], np.asarray(w)))
                if not same and len(bad) < 10:
                    bad.append(("reweighter-depends-on-its-past", f"iteration {stats['iters']}: the long-lived Reweighter chose beta={rec['beta']!r} (logZ {rec['logz']!r}, "
                                f"ESS {rec['ess']!r}); a fresh Reweighter on the same state chooses beta={fresh[0]!r} (logZ {fresh[1]!r}, ESS {fresh[2]!r})"))
            if not logl:
                if rec["beta"] != 0.0:
                    bad.append(("first-beta-not-zero", f"first iteration beta={rec['beta']}"))
                return
            if rec["beta"] > beta_prev:
                stats["advanced"] += 1
            stats["limits"] += len(limits)
            for kv in judge((logl, betas, logzs), beta_prev, c["ess_ratio"] * c["N"], c["volume_variation"] is not None, rec, w, limits[-1] if limits else None):
                if len(bad) < 10:
                    bad.append((kv[0], kv[1] + f" [iteration {stats['iters']}]"))
            if pin is not None and not stats["pinned"] and rec["beta"] >= 0.5:
                self.state.set_current("beta", float(pin))       # injected decision of the reweighting step
                rec = dict(rec, beta=float(pin))
                stats["pinned"] = 1
            recorded.clear()
            recorded.update(rec)
        hk.wrap(Reweighter, "run", before=before, after=after)
        attach.iteration_budget(hk, 400)
        try:
            s.run(n_total=c["n_total"], progress=runs.prog(c))
        except Exception as e:
            bad.append(("run-raises", f"{type(e).__name__}: {e}"))
    # committed history is monotone and bounded
    betas = [float(b) for b in s.state.get_history("beta")]
    stats["limit_pinned"] = int(pl["n"] > 0)
    if pin_limit is not None and pl["n"]:
        stats["band_recorded"] = int(any(1 - 2e-4 < b < 1 for b in betas))
    if betas and betas[0] != 0.0:
        bad.append(("first-beta-not-zero", f"history starts at beta={betas[0]}"))
    if any(b2 < b1 for b1, b2 in zip(betas, betas[1:])) or any(b > 1 for b in betas):
        bad.append(("beta-decreased", f"committed beta sequence {betas}"))
    return bad, stats


def run():
    ck = Check("C05")
    n = ck.pick(2000, 50000)
    per = ck.pick(100, 500)
    tasks = [("tvf.checks.c05:_batch", dict(seed=ck.seed, start=s, count=min(per, n - s)), None) for s in range(0, n, per)]
    for i, st, val in farm.run(tasks, timeout=ck.pick(300, 1800), progress="C05-pools"):
        if st != "ok":
            ck.inconc(f"batch {i}: {st} {str(val)[:300]}")
            continue
        for idx, desc, bad, adv, nlim in val:
            ck.case(desc, nontrivial=adv)
            ck.event("synthetic pools through Reweighter.run")
            if adv:
                ck.event("pools on which beta advanced")
            if "+stalled" in str(desc.get("kind")):
                ck.event("pools whose last 20 ... 120 iterations were recorded at one intermediate temperature")
                if adv:
                    ck.event("... on which beta advanced")
            ck.event("_find_beta_upper_limit observed", nlim)
            for key, what in bad:
                ck.violation(key, what, dict(stream=["pool", idx], case=desc))
    bt = [("tvf.checks.c05:big_pool_case", dict(seed=ck.subseed("bigpool", j), vol=[None, 0.5, None, 2.0][j % 4]), None) for j in range(ck.pick(2, 8))]
    for i, st, val in farm.run(bt, timeout=1800, progress="C05-bigpool"):
        if st != "ok":
            ck.inconc(f"big pool {bt[i][1]}: {st} {str(val)[:300]}")
            continue
        bad, adv, nlim, desc = val
        ck.case(dict(big_pool=desc, seed=bt[i][1]["seed"]), nontrivial=adv)
        ck.event("pools of more than 2**17 samples through Reweighter.run")
        for key, what in bad:
            ck.violation(key, what, dict(big_pool=bt[i][1]))
    nseq = ck.pick(600, 20000)
    seeds = [ck.subseed("seq", i) for i in range(nseq)]
    stasks = [("tvf.checks.c05:_seq_batch", dict(seeds=seeds[i:i + 50]), None) for i in range(0, nseq, 50)]
    for i, st, val in farm.run(stasks, timeout=1800, progress="C05-sequences"):
        if st != "ok":
            ck.inconc(f"sequence batch {i}: {st} {str(val)[:300]}")
            continue
        for sd, bad, stats, desc in val:
            ck.case(dict(sequence=desc), nontrivial=stats.get("advanced", 0) > 0)
            ck.event("multi-iteration sequences through one Reweighter instance")
            ck.event("sequence steps judged", stats.get("steps", 0))
            ck.event("sequence steps where the ESS limit dropped below 1 after having been 1", stats.get("limit_one_then_less", 0))
            seen = set()
            for key, what in bad:
                if key not in seen:
                    seen.add(key)
                    ck.violation(key, what, dict(sequence_seed=sd, case=desc))
    rt = []
    nr = ck.pick(24, 400)
    pins = [None, 1 - 5e-5, None, 1 - 1e-6, 1 - 1.5e-4, None]
    for i in range(nr):
        cfg = dict(runs.small_cfg(i), seed=ck.subseed("real", i))
        cfg["ess_ratio"] = [2.0, 1.0, 3.5, 0.5][i % 4]
        cfg["volume_variation"] = [None, 1.0, None, 0.3, 5.0][i % 5]
        rt.append(("tvf.checks.c05:real_case", dict(cfg=cfg, pin=pins[i % len(pins)]), None))
    lpins = [1 - 5e-5, 1 - 2 ** -14, 1 - 9.9e-5, 1 - 1e-7, 1 - 1.2e-4, 1 - 3e-5]
    for i in range(ck.pick(12, 96)):
        cfg = dict(runs.small_cfg(i + 1), seed=ck.subseed("lpin", i))
        cfg["ess_ratio"] = [2.0, 1.0, 3.5][i % 3]
        cfg["volume_variation"] = [None, 1.0, None, 5.0][i % 4]
        rt.append(("tvf.checks.c05:real_case", dict(cfg=cfg, pin_limit=lpins[i % len(lpins)]), None))
    for i, st, val in farm.run(rt, timeout=900, progress="C05-runs"):
        cfg = rt[i][1]["cfg"]
        if st == "timeout":
            ck.inconc(f"{cfg}: watchdog")
            continue
        if st != "ok":
            ck.violation("run-crashed", f"{cfg}: {st} {str(val)[-300:]}", dict(cfg=cfg))
            continue
        bad, stats = val
        ck.case(dict(real=cfg), nontrivial=stats["advanced"] > 0)
        ck.event("monitored real runs")
        ck.event("real-run Reweighter.run invocations judged", stats["iters"])
        ck.event("real-run iterations on which beta advanced", stats["advanced"])
        ck.event("real-run commits compared with what the reweighting step recorded", stats.get("commits", 0))
        ck.event("reweighting steps replayed on a fresh Reweighter (differential)", stats.get("fresh", 0))
        ck.event("real runs with an injected reweighter decision inside the last 2e-4 below one", stats.get("pinned", 0))
        ck.event("real runs whose ESS limit was injected inside the last 2e-4 below one", stats.get("limit_pinned", 0))
        ck.event("real runs in which the reweighter itself decided on a temperature inside the last 2e-4 below one", stats.get("band_recorded", 0))
        seen = set()
        for key, what in bad:
            if key not in seen:
                seen.add(key)
                ck.violation(key, what, dict(cfg=cfg))
    ck.require_events("synthetic pools through Reweighter.run", "pools on which beta advanced", "_find_beta_upper_limit observed",
                      "sequence steps judged", "sequence steps where the ESS limit dropped below 1 after having been 1",
                      "real-run Reweighter.run invocations judged", "real-run iterations on which beta advanced",
                      "real runs whose ESS limit was injected inside the last 2e-4 below one")
    return ck.finish(
        rule="synthetic pools (T<=8 batches, unequal sizes, quadratic/flat/peaked/heavy likelihoods, 1..T warm-up batches, ess_ratio {0.5,1,2,3.5}, "
             "volume targets {0.2,1,5}) pushed through the real Reweighter.run; monitored real runs over kernels/resamplers/clustering/metric modes; "
             "judged at the recorded beta against the long-double reference; non-trivial = beta advanced",
        assumptions=["warm-up iterations with -inf draws are owned by C11", "in volume mode the ESS limit is the one the code reports (validated: its reference ESS >= target)"],
    )


def replay(rec):
    os.environ["VERIF_SEED"] = str(rec["seed"])
    ck = Check("C05")
    w = rec["witness"] or {}
    if "stream" in w:
        bad, adv, _ = pool_case(gen_pool(ck.rng(*w["stream"])))
        print(bad or "held")
        return 1 if bad else 0
    return 2

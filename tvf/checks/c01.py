"""C01 - weighted posterior samples estimate posterior expectations consistently.

Replicate ensembles of real Sampler.run() calls on targets with closed-form posterior
functionals; Rule S (two-stage, fixed thresholds) judges the mean error of each estimand
for three estimators computed from the *same* runs: untrimmed weighted sample, default
(trimmed) posterior(), and resampled.  A violation is classified by mechanism (kernel +
boundary kind of the cell; estimator) so that only the listed known findings are tolerated.
"""
from __future__ import annotations

from tvf import ensemble, targets
from tvf.env import Check

CONFIGS4 = [dict(kernel="tpcn", resample="mult", clustering=False), dict(kernel="rwm", resample="syst", clustering=False),
            dict(kernel="tpcn", resample="syst", clustering=True), dict(kernel="rwm", resample="mult", clustering=True)]
CONFIGS8 = [dict(kernel=k, resample=r, clustering=c) for k in ("tpcn", "rwm") for r in ("mult", "syst") for c in (False, True)]


def mech_key(cfg, name, estimator):
    t = targets.make(cfg["target"], **cfg.get("tkw", {}))
    bc = "periodic" if t.periodic else "reflective" if t.reflective else None
    if bc and cfg["kernel"] == "tpcn":
        return f"tpcn+{bc}"
    if bc == "reflective" and cfg["kernel"] == "rwm":
        return "rwm+reflective+correlated"
    if estimator == "trimmed":
        return "trimmed-estimator"
    return f"biased-{estimator}-{cfg['kernel']}-{'clustered' if cfg['clustering'] else 'global'}"


def make_cells(ck):
    tg = ck.pick(["gauss2", "bimodal", "expface", "vonmises"], ["gauss2", "bimodal", "expface", "vonmises", "expface_refl", "gauss4"])
    cf = ck.pick(CONFIGS4, CONFIGS8)
    Ns = ck.pick([128], [128, 512])
    cells = []
    for t in tg:
        for c in cf:
            for N in Ns:
                cells.append(dict(target=t, N=N, n_total=8 * N, mode="vec", **c))
    # cells outside the product: volume-variation schedule, d=4 (quick: one N; thorough: both)
    for N in Ns:
        for kern in ("tpcn", "rwm"):
            cells.append(dict(target="gauss2", N=N, n_total=8 * N, mode="vec", kernel=kern, resample="mult", clustering=False, volume_variation=1.0))
            if ck.quick:
                cells.append(dict(target="gauss4", N=N, n_total=8 * N, mode="vec", kernel=kern, resample="syst", clustering=False))
            cells.append(dict(target="bimodal", N=N, n_total=8 * N, mode="vec", kernel=kern, resample="syst", clustering=True, volume_variation=2.0,
                              tkw=dict(p=0.85)))
            # posterior 1000x narrower than the prior (sd 1e-3 in cube units, ~30 temperature steps)
            if kern == "tpcn":     # (RWM with the default step budget has a large finite-N error on this target: not a fair cell)
                cells.append(dict(target="gauss2", N=N, n_total=8 * N, mode="vec", kernel=kern, resample="mult", clustering=False, tkw=dict(half=500.0, rho=0.5)))
    # a run stopped half-way and continued by a new sampler with another particle count (stored batches of different sizes)
    # dynamic mode with a requested variation so small that every temperature is found by bisection strictly inside (beta_prev, ESS limit)
    cells.append(dict(target="gauss2", N=128, n_total=1024, mode="vec", kernel="tpcn", resample="mult", clustering=False, volume_variation=0.01))
    cells.append(dict(target="gauss2", N=128, n_total=1024, mode="vec", kernel="rwm", resample="syst", clustering=False, volume_variation=0.02))
    cells.append(dict(target="gauss2", N=128, n_total=1024, mode="vec", kernel="tpcn", resample="mult", clustering=False, continue_with=512))
    cells.append(dict(target="gauss4", N=128, n_total=1024, mode="vec", kernel="tpcn", resample="syst", clustering=False, xstyle="indexed"))
    return cells


def run():
    ck = Check("C01")
    cells = make_cells(ck)
    R = ck.pick(32, 64)
    Nmax = max(c["N"] for c in cells)
    clean_untrimmed = {}

    def extract(cfg, sums):
        t = targets.make(cfg["target"], **cfg.get("tkw", {}))
        out = []
        for est in ("untrimmed", "trimmed", "resampled"):
            for name, (truth, scale) in t.truths().items():
                out.append((f"{est}:{name}", [s["est"][est][name] for s in sums], truth, scale))
        return out

    flagged = []

    def on_v(cfg, name, r1, r2):
        flagged.append((cfg, name, r1, r2))
    table = ensemble.judge(ck, cells, extract, R, "c01", on_v)
    # decisive cells: in thorough the largest N (the property is about what persists as N grows)
    confirmed = {(ensemble.cell_key(c), n) for c, n, _, _ in flagged}
    for cfg, name, r1, r2 in flagged:
        est, fn = name.split(":", 1)
        if not ck.quick and cfg["N"] != Nmax:
            big = dict(cfg, N=Nmax, n_total=8 * Nmax)
            if (ensemble.cell_key(big), name) not in confirmed:
                ck.note(f"bias at N={cfg['N']} not present at N={Nmax}: {cfg['target']} {name} b={r1['b']:+.4g}")
                continue
        key = mech_key(cfg, fn, est)
        if key == "trimmed-estimator" and (ensemble.cell_key(cfg), f"untrimmed:{fn}") in confirmed:
            key = mech_key(cfg, fn, "untrimmed")      # the untrimmed estimator of the same runs is biased too
        if cfg["clustering"] and key.startswith("biased-"):
            sib = [c for c in cells if c["target"] == cfg["target"] and c["kernel"] == cfg["kernel"] and c["N"] == cfg["N"] and not c["clustering"]]
            if sib and not any((ensemble.cell_key(c), name) in confirmed for c in sib):
                key = "clustering-state-dependent-kernel"     # same target/kernel/N/estimand without clustering is clean
        ck.violation(key, f"target {cfg['target']}, {cfg['kernel']}/{cfg['resample']}/clustering={cfg['clustering']}, N={cfg['N']}: estimator {est} of "
                     f"{fn}: mean error {r1['b']:+.5g} +- {r1['se']:.2g} (z={r1['z']:.1f}, allowance {r1['allowance']:.3g}); on 2R fresh seeds "
                     f"{r2['b']:+.5g} +- {r2['se']:.2g} (z={r2['z']:.1f})", dict(cfg=cfg, estimand=name))
    ck.tables["cells"] = [r for r in table if r.get("flag") or r.get("stage") == 2][:200]
    ck.tables["n_estimands_judged"] = len(table)
    zs = [abs(r["z"]) for r in table if r.get("z") is not None and r.get("stage") != 2 and r["z"] == r["z"] and abs(r["z"]) != float("inf")]
    ck.tables["abs_z_quantiles"] = dict(n=len(zs), q50=sorted(zs)[len(zs) // 2] if zs else None, q90=sorted(zs)[int(0.9 * len(zs))] if zs else None,
                                        max=max(zs) if zs else None)
    ck.require_events("ensemble cells judged by Rule S", "replicate runs contributing")
    return ck.finish(
        rule="cells = target {interior correlated Gaussian, 0.7/0.3 bimodal, exponential abutting u=0, von Mises on a periodic coordinate"
             + ("" if ck.quick else ", reflective exponential, 4-d Gaussian") + "} x configuration {kernel x resampler x clustering: "
             + ("pairwise 4" if ck.quick else "all 8") + f"}} x N {sorted(set(c['N'] for c in cells))} (n_total = 8N) x R={R} independent seeds; estimands mean / "
             "variance / marginal CDF at 10,50,90% / covariance / mode mass / E[cos]; Rule S per estimand and estimator, flagged cells re-run with 2R "
             "fresh seeds; non-trivial = enough replicates completed",
        assumptions=["finite-particle allowance a(N)=4*scale/N", "closed-form truths of tvf.targets"],
    )

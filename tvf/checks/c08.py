"""C08 - checkpoints restore exactly, resume continues the run, saves are crash-safe.

(a) exact restore: every checkpoint of a save_every=1 run is loaded into a fresh sampler and
    its digest compared with the digest snapshotted by a hook at save time;
(b) resume: a fresh sampler resumes from chosen checkpoints; prefix bit-identical, numbering /
    call counting / schedule continue, run postconditions hold (reference MIS evidence);
(c) crash safety: fault enumeration - the saving process is killed before every I/O call of
    a save and at byte offsets inside its writes (tvf.crash); whatever is then found under
    the checkpoint's final name must load to the complete old or the complete new state;
    thorough additionally kills at the syscall level with `strace -e inject`;
(d) saving works in every configuration (pool-like object, integer pool, clustering, blobs...).
"""
from __future__ import annotations

import os
import pickle
import shutil
import subprocess
import sys
import tempfile

import numpy as np

from tvf import attach, crash, farm, runs
from tvf.env import Check, OUT, digest, fmt_exc
from tvf.oracles import mis_ref


def state_digest(sm):
    d = sm.to_dict()
    return digest(d["_current"], d["_history"])


def tmpdir(other_fs=False):
    """scratch directory; other_fs=True: on a filesystem different from tempfile.gettempdir() (tmpfs /dev/shm), if there is one"""
    if other_fs:
        shm = "/dev/shm"
        try:
            if os.path.isdir(shm) and os.access(shm, os.W_OK) and os.stat(shm).st_dev != os.stat(tempfile.gettempdir()).st_dev:
                return tempfile.mkdtemp(dir=shm, prefix="tvf-c08-")
        except OSError:
            pass
        return None
    base = OUT / "tmp"
    base.mkdir(parents=True, exist_ok=True)
    return tempfile.mkdtemp(dir=str(base), prefix="c08-")


class _ThreadPoolLike:
    """pool-like object with a map(); not picklable on purpose (holds a lock)."""

    def __init__(self):
        import threading
        self._lock = threading.Lock()

    def map(self, f, xs):
        return [f(x) for x in xs]


def make_cfg(i, seed):
    base = [
        dict(target="gauss2", kernel="tpcn", clustering=False, mode="vec"),
        dict(target="bimodal", kernel="tpcn", clustering=True, mode="vec"),
        dict(target="gauss2", kernel="rwm", clustering=False, mode="blobs"),
        dict(target="gauss2", kernel="tpcn", clustering=False, mode="scalar", pool="threadlike"),
        dict(target="vonmises", kernel="rwm", clustering=True, mode="scalar", resample="syst"),
        dict(target="expface", kernel="tpcn", clustering=False, mode="blobs", pool="threadlike", volume_variation=1.0),
        dict(target="bimodal", kernel="rwm", clustering=True, mode="blobs", cluster_every=2),
        dict(target="gauss4", kernel="tpcn", clustering=True, mode="vec", n_max_clusters=2, resample="syst"),
        dict(target="expface_refl", kernel="rwm", clustering=False, mode="vec"),
        dict(target="gauss2", kernel="tpcn", clustering=True, mode="scalar", pool="threadlike", cluster_every=3),
        dict(target="support", tkw=dict(f=0.5), kernel="tpcn", clustering=False, mode="vec"),
        dict(target="gauss2", kernel="rwm", clustering=False, mode="scalar", pool=2),
        dict(target="bimodal", kernel="tpcn", clustering=True, mode="vec", volume_variation=2.0),
        dict(target="gauss2", kernel="tpcn", clustering=False, mode="vec", random_state=7),
        dict(target="vonmises", kernel="tpcn", clustering=False, mode="blobs"),
        dict(target="gauss4", kernel="rwm", clustering=False, mode="scalar"),
    ][i % 16]
    c = dict(base, N=48, n_total=192, seed=seed)
    return c


def _build(c, tmp):
    if c.get("default_dir"):
        # no output_dir / output_label given: checkpoints go to ./states/ps_<k>.state relative to the working directory
        os.chdir(tmp)
        c = {k: v for k, v in c.items() if k not in ("output_dir", "output_label")}
    else:
        c = dict(c, output_dir=(__import__("pathlib").Path(tmp) if c.get("pathlib") else tmp), output_label="ck")
    if c.get("pool") == "threadlike":
        c["pool"] = _ThreadPoolLike()
    return runs.build(c)


def scenario(cfg, n_resume, seed2, second_gen=False):
    """Run with save_every=1, restore every checkpoint, resume from some."""
    from tempest.core import SamplerCore
    out = dict(bad=[], saves=0, restored=0, resumed=0, nontrivial_resume=0)
    tmp = tmpdir()
    cwd0 = os.getcwd()
    try:
        c = runs.full(cfg)
        np.random.seed(c["seed"])
        s, t, like, pt = _build(c, tmp)
        saves = []
        with attach.Hooks() as hk:
            def after(ctx, r, self, path):
                sm = self.state
                saves.append(dict(path=str(path), dg=state_digest(sm), it=sm.get_current("iter"),
                                  calls=sm.get_current("calls"), beta=sm.get_current("beta"),
                                  hl=sm.get_history_length()))
            hk.wrap(SamplerCore, "save_sampler_state", after=after)
            attach.iteration_budget(hk, 400)
            try:
                if c.get("manual"):
                    # the writer is a hand-written loop over the public sample(save_every, t0): a checkpoint is due at iteration i iff
                    # (i - t0) % save_every == 0 and i != t0
                    # (sample() needs an initialised sampler: a short run() without checkpoints comes first, as in the library's own tests)
                    se_m, t0_m, n_m = c["manual"]
                    s.run(n_total=c["N"], progress=runs.prog(c))
                    base_it = int(s.state.get_current("iter"))
                    for _ in range(n_m):
                        s.sample(save_every=se_m, t0=base_it + t0_m)
                else:
                    s.run(n_total=c["n_total"], progress=runs.prog(c), save_every=1)
            except Exception as e:
                key = "save-raises-with-pool" if c.get("pool") is not None else "run-with-save-every-raises"
                out["bad"].append((key, f"run(save_every=1) raised {type(e).__name__}: {e} (pool={c.get('pool')!r})"))
                return out
        if c.get("manual"):
            se_m, t0_m, n_m = c["manual"]
            # sample() saves the state it finds on entry: call j (1-based) sees iteration base_it + j - 1
            due = [base_it + i for i in range(0, n_m) if (i - t0_m) % se_m == 0 and i != t0_m]
            got = [int(sv["it"]) for sv in saves]
            if got != due:
                out["bad"].append(("manual-loop-save-schedule", f"sample(save_every={se_m}, t0={t0_m}) called {n_m} times wrote checkpoints at iterations {got}, due at {due}"))
        H = runs.history(s)
        out["saves"] = len(saves)
        if not saves:
            out["bad"].append(("no-checkpoint-written", "run(save_every=1) wrote no checkpoint"))
            return out
        for k, sv in enumerate(saves):
            if not os.path.exists(sv["path"]):
                out["bad"].append(("checkpoint-missing", f"{os.path.basename(sv['path'])} not on disk after save"))
                continue
            s2 = _build(c, tmp)[0]
            try:
                # paths are handed over as str or as pathlib.Path (both documented), alternating
                s2.load_state(__import__("pathlib").Path(sv["path"]) if (c.get("pathlib") and k % 2 == 0) else sv["path"])
            except Exception as e:
                out["bad"].append(("load-raises", f"load_state({os.path.basename(sv['path'])}) raised {type(e).__name__}: {e}"))
                continue
            out["restored"] += 1
            dg2 = state_digest(s2.state)
            if dg2 != sv["dg"]:
                hl2 = s2.state.get_history_length()
                out["bad"].append(("restore-mismatch", f"{os.path.basename(sv['path'])}: loaded state differs from the state at save time "
                                   f"(history length {hl2} vs {sv['hl']}, u is None: {s2.state.get_current('u') is None})"))
        # leftovers: a complete save must not leave stray temp files
        ckdir = os.path.dirname(saves[0]["path"]) if saves else tmp        # (./states under tmp when output_dir is left at its default)
        stray = [f for f in os.listdir(ckdir) if not f.endswith(".state")]
        if c.get("default_dir"):
            exp_dir = os.path.realpath(os.path.join(tmp, "states"))
            if os.path.realpath(ckdir) != exp_dir or not all(os.path.basename(sv["path"]).startswith("ps_") for sv in saves):
                out["bad"].append(("default-output-location", f"with output_dir / output_label left at their defaults checkpoints were written to {sorted(set(os.path.basename(sv['path']) for sv in saves))[:3]} "
                                   f"in {ckdir}, documented: ./states/ps_<k>.state"))
            stray += [f for f in os.listdir(tmp) if f != "states"]
        if stray:
            out["bad"].append(("stray-temp-file", f"files left beside checkpoints after a complete run: {stray[:3]}"))
        # resume
        ks = sorted(set(np.linspace(0, len(saves) - 1, n_resume).astype(int).tolist()))
        # the final checkpoint is resumed twice: with the target already met (no further iteration) and with a larger one
        plan = [(k, None) for k in ks] + [(len(saves) - 1, "same")]
        for k, mode in plan:
            sv = saves[k]
            import multiprocessing as mp
            from tvf import idblob
            idblob.SHARED = mp.Value("q", 0)      # cross-process evaluation counter (integer pools evaluate in workers)
            s3, t3, like3, pt3 = _build(c, tmp)
            np.random.seed(seed2 + k)
            # every other resume asks for MORE effective samples than the run that wrote the checkpoint
            nt3 = c["n_total"] * (1 if mode == "same" else 3 if (k % 2 == 1 or k == len(saves) - 1) else 1)
            try:
                with attach.Hooks() as hk:
                    attach.iteration_budget(hk, 400)
                    s3.run(n_total=nt3, progress=runs.prog(c),
                           resume_state_path=(__import__("pathlib").Path(sv["path"]) if c.get("pathlib") else sv["path"]))
            except Exception as e:
                out["bad"].append(("resume-raises", f"run(resume_state_path={os.path.basename(sv['path'])}) raised {type(e).__name__}: {e}\n{fmt_exc()[-500:]}"))
                continue
            out["resumed"] += 1
            H3 = runs.history(s3)
            hl = sv["hl"]
            T3 = len(H3["beta"])
            if T3 > hl:
                out["nontrivial_resume"] += 1
            if T3 < hl:
                out["bad"].append(("resume-lost-history", f"resumed run has {T3} iterations, checkpoint had {hl}"))
                continue
            for key in ("u", "x", "logl", "beta", "logz", "iter", "calls", "ess", "steps", "blobs"):
                if key == "blobs" and not H["blobs"]:
                    continue
                if digest(H3[key][:hl]) != digest(H[key][:hl]):
                    out["bad"].append(("resume-prefix-changed", f"history['{key}'][:{hl}] of the resumed run differs from the run that wrote the checkpoint"))
                    break
            iters = [int(i) for i in H3["iter"]]
            if iters != list(range(1, T3 + 1)):
                out["bad"].append(("resume-iteration-numbering", f"iteration numbers after resume: {iters[:hl + 3]}... (checkpoint at {sv['it']})"))
            calls = [int(x) for x in H3["calls"]]
            if any(b < a for a, b in zip(calls, calls[1:])) or (T3 > hl and calls[hl] <= calls[hl - 1]):
                out["bad"].append(("resume-call-count", f"call counter does not continue: {calls[max(0, hl - 2):hl + 2]}"))
            seen3 = int(idblob.SHARED.value)
            if T3 > hl and seen3 != calls[-1] - sv["calls"]:
                out["bad"].append(("resume-call-count", f"calls grew by {calls[-1] - sv['calls']} after resume but the likelihood saw {seen3} points"))
            betas = [float(b) for b in H3["beta"]]
            if any(b < a for a, b in zip(betas, betas[1:])):
                out["bad"].append(("resume-beta-decreases", f"beta decreases after resume: {betas[max(0, hl - 2):hl + 2]}"))
            # postconditions (same as an uninterrupted run)
            _, lwn, lz, ess = mis_ref(H3["logl"], H3["beta"], H3["logz"], 1.0)
            if 1 - betas[-1] >= 1e-4 or float(ess) < nt3 * (1 - 1e-9):
                out["bad"].append(("resume-postcondition", f"run(n_total={nt3}, resume_state_path=...) ended at beta={betas[-1]}, ESS={float(ess):.1f} "
                                   f"(the checkpoint was written by a run with n_total={c['n_total']})"))
            ev = s3.evidence()[0]
            if abs(ev - float(lz)) > 1e-8 * (1 + abs(float(lz))):
                out["bad"].append(("resume-evidence", f"evidence() {ev} != reference {float(lz)}"))
            # second generation: a checkpoint written *by the resumed run* must restore and resume as well
            if second_gen and T3 > hl + 1:
                tmp2 = tmpdir()
                try:
                    c2 = dict(c, output_dir=tmp2)
                    s4 = _build(c2, tmp2)[0]
                    np.random.seed(seed2 + 1000 + k)
                    s4.run(n_total=c["n_total"], progress=runs.prog(c), resume_state_path=sv["path"], save_every=1)
                    files = sorted((f for f in os.listdir(tmp2) if f.startswith("ck_") and "final" not in f and f.endswith(".state")),
                                   key=lambda f: int(f.split("_")[1].split(".")[0]))
                    if files:
                        H4 = runs.history(s4)
                        pick = files[len(files) // 2]
                        it_pick = int(pick.split("_")[1].split(".")[0])
                        s5 = _build(c2, tmp2)[0]
                        s5.run(n_total=c["n_total"], progress=runs.prog(c), resume_state_path=os.path.join(tmp2, pick))
                        H5 = runs.history(s5)
                        out["second_gen"] = out.get("second_gen", 0) + 1
                        if digest(H5["u"][:it_pick]) != digest(H4["u"][:it_pick]) or [int(i) for i in H5["iter"]] != list(range(1, len(H5["iter"]) + 1)):
                            out["bad"].append(("resume-second-generation", f"resuming from {pick} written by a resumed run: prefix or numbering differs"))
                        if digest(H4["u"][:hl]) != digest(H["u"][:hl]):
                            out["bad"].append(("resume-prefix-changed", "first-generation prefix changed in the second-generation run"))
                except Exception as e:
                    out["bad"].append(("resume-raises", f"second-generation resume raised {type(e).__name__}: {e}"))
                finally:
                    shutil.rmtree(tmp2, ignore_errors=True)
        return out
    finally:
        os.chdir(cwd0)
        shutil.rmtree(tmp, ignore_errors=True)


def interrupt_scenario(cfg, at_frac, kind, save_every):
    """The run is interrupted from inside the user's likelihood (KeyboardInterrupt = Ctrl-C / SIGINT, or an ordinary exception)
    in the middle of an iteration.  Whatever checkpoint files exist afterwards - regular ones or ones written on the way out -
    must each restore into a fresh sampler and resume with contiguous iteration numbers, a continuing call counter, a
    non-decreasing temperature, the restored prefix untouched and the usual postconditions."""
    out = dict(bad=[], files=0, resumed=0, interrupted=0)
    tmp = tmpdir()
    try:
        c = runs.full(dict(cfg, mode="scalar"))
        # dry run to learn how many likelihood evaluations the run takes
        np.random.seed(c["seed"])
        s0, t, like0, pt = runs.build(c)
        s0.run(n_total=c["n_total"], progress=False)
        total = int(like0.n_points)
        at = max(c["N"] + 1, int(at_frac * total))
        np.random.seed(c["seed"])
        s, t, like, pt = _build(c, tmp)
        state = {"n": 0, "fired": False}

        def trip(x):
            state["n"] += 1
            if state["n"] == at and not state["fired"]:
                state["fired"] = True
                raise (KeyboardInterrupt() if kind == "sigint" else RuntimeError("user model failed"))
        like.delay = trip
        try:
            s.run(n_total=c["n_total"], progress=False, save_every=save_every)
        except (KeyboardInterrupt, RuntimeError):
            out["interrupted"] = 1
        like.delay = None
        files = sorted(f for f in os.listdir(tmp) if f.endswith(".state"))
        stray = [f for f in os.listdir(tmp) if not f.endswith(".state")]
        if stray:
            out["bad"].append(("stray-temp-file", f"files left beside checkpoints after an interrupted run: {stray[:3]}"))
        out["files"] = len(files)
        for f in files:
            pth = os.path.join(tmp, f)
            s2 = _build(c, tmp)[0]
            try:
                s2.load_state(pth)
            except Exception as e:
                out["bad"].append(("load-raises", f"[{kind}] load_state({f}) raised {type(e).__name__}: {e}"))
                continue
            pre = runs.history(s2)
            hl = len(pre["beta"])
            calls0 = int(s2.state.get_current("calls") or 0)
            import multiprocessing as mp
            from tvf import idblob
            idblob.SHARED = mp.Value("q", 0)
            s3 = _build(c, tmp)[0]
            np.random.seed(c["seed"] + 99)
            try:
                with attach.Hooks() as hk:
                    attach.iteration_budget(hk, 400)
                    s3.run(n_total=c["n_total"], progress=False, resume_state_path=pth)
            except Exception as e:
                out["bad"].append(("resume-raises", f"[{kind}] run(resume_state_path={f}) raised {type(e).__name__}: {e}"))
                continue
            out["resumed"] += 1
            H3 = runs.history(s3)
            T3 = len(H3["beta"])
            iters = [int(i) for i in H3["iter"]]
            if iters != list(range(1, T3 + 1)):
                out["bad"].append(("resume-iteration-numbering", f"[{kind}, save_every={save_every}] {f} (written by a run interrupted at evaluation {at} of {total}): iteration numbers "
                                   f"after resume {iters[max(0, hl - 2):hl + 3]} (history of {hl} iterations in the file, its current iter {s2.state.get_current('iter')})"))
            for key in ("u", "logl", "beta", "logz"):
                if digest(H3[key][:hl]) != digest(pre[key][:hl]):
                    out["bad"].append(("resume-prefix-changed", f"[{kind}] {f}: history['{key}'][:{hl}] of the resumed run differs from what the file restores"))
                    break
            calls = [int(x) for x in H3["calls"]]
            if any(b < a for a, b in zip(calls, calls[1:])):
                out["bad"].append(("resume-call-count", f"[{kind}] {f}: call counter decreases {calls[max(0, hl - 2):hl + 2]}"))
            seen3 = int(idblob.SHARED.value)
            if T3 > hl and seen3 != calls[-1] - calls0:
                out["bad"].append(("resume-call-count", f"[{kind}] {f}: calls grew by {calls[-1] - calls0} after resume but the likelihood saw {seen3} points"))
            betas = [float(b) for b in H3["beta"]]
            if any(b < a for a, b in zip(betas, betas[1:])):
                out["bad"].append(("resume-beta-decreases", f"[{kind}] {f}: beta decreases after resume"))
            _, _, lz, ess = mis_ref(H3["logl"], H3["beta"], H3["logz"], 1.0)
            if 1 - betas[-1] >= 1e-4 or float(ess) < c["n_total"] * (1 - 1e-9):
                out["bad"].append(("resume-postcondition", f"[{kind}] {f}: resumed run ended at beta={betas[-1]}, ESS={float(ess):.1f}"))
        return out
    except Exception as e:
        out["bad"].append(("interrupt-scenario-raises", f"{type(e).__name__}: {e}\n{fmt_exc()[-400:]}"))
        return out
    finally:
        shutil.rmtree(tmp, ignore_errors=True)


def used_writer_scenario(cfg, variant, seed2):
    """The WRITER is a sampler object that has already run, written checkpoints and then had another history loaded (an earlier
    checkpoint of its own, or a checkpoint of another run).  Every checkpoint it writes afterwards, loaded into a fresh
    sampler, must be the state the writer had when it wrote it."""
    from tempest.core import SamplerCore
    out = dict(bad=[], saves_after=0, restored=0)
    tmp, tmp0 = tmpdir(), tmpdir()
    try:
        c = runs.full(cfg)
        np.random.seed(c["seed"])
        s, t, like, pt = _build(c, tmp)
        s.run(n_total=c["n_total"], progress=False, save_every=1)
        own = sorted((f for f in os.listdir(tmp) if f.startswith("ck_") and "final" not in f and f.endswith(".state")),
                     key=lambda f: int(f.split("_")[1].split(".")[0]))
        if not own:
            out["bad"].append(("no-checkpoint-written", "run(save_every=1) wrote no checkpoint"))
            return out
        if variant.startswith("foreign"):
            np.random.seed(seed2)
            s0 = _build(dict(c, seed=seed2), tmp0)[0]
            s0.run(n_total=c["n_total"], progress=False, save_every=1)
            other = sorted((f for f in os.listdir(tmp0) if f.startswith("ck_") and f.endswith(".state")),
                           key=lambda f: (("final" in f), int(f.split("_")[1].split(".")[0]) if "final" not in f else 0))
            src = os.path.join(tmp0, other[{"foreign-last": -1, "foreign-mid": len(other) // 2}.get(variant, -1)])
        else:
            src = os.path.join(tmp, own[max(0, len(own) // 3)])
        saves = []
        with attach.Hooks() as hk:
            def after(ctx, r, self, path):
                if self is s._core:
                    sm = self.state
                    saves.append(dict(path=str(path), dg=state_digest(sm), hl=sm.get_history_length()))
            hk.wrap(SamplerCore, "save_sampler_state", after=after)
            attach.iteration_budget(hk, 400)
            np.random.seed(seed2 + 7)
            if variant.startswith("foreign"):
                s.load_state(src)
                s.save_state(os.path.join(tmp, "manual.state"))
                s.run(n_total=2 * c["n_total"], progress=False, resume_state_path=src, save_every=3)
            else:
                se = {"rewind-final-only": 10 ** 6, "rewind-every-2": 2, "rewind-every-1": 1}[variant]
                s.run(n_total=2 * c["n_total"], progress=False, resume_state_path=src, save_every=se)
                s.save_state(os.path.join(tmp, "manual.state"))
        out["saves_after"] = len(saves)
        last = {}
        for sv in saves:
            last[sv["path"]] = sv           # a path written twice holds the later state
        for pth, sv in last.items():
            s2 = _build(c, tmp)[0]
            try:
                s2.load_state(pth)
            except Exception as e:
                out["bad"].append(("load-raises", f"[{variant}] load_state({os.path.basename(pth)}) raised {type(e).__name__}: {e}"))
                continue
            out["restored"] += 1
            if state_digest(s2.state) != sv["dg"]:
                out["bad"].append(("restore-mismatch-used-writer", f"[{variant}] {os.path.basename(pth)} written by a sampler object that had been re-loaded: the "
                                   f"file does not hold the state the writer had when it wrote it (history length {s2.state.get_history_length()} vs {sv['hl']})"))
        return out
    except Exception as e:
        out["bad"].append(("used-writer-raises", f"[{variant}] {type(e).__name__}: {e}\n{fmt_exc()[-400:]}"))
        return out
    finally:
        shutil.rmtree(tmp, ignore_errors=True)
        shutil.rmtree(tmp0, ignore_errors=True)


# --------------------------------------------------------------------------- crash safety
def _child_save(s, P, plan, tmp, wfd=None, bufsize=8192):
    try:
        crash.install(plan, tmp, buffer_size=bufsize)
        s.save_state(P)
        if wfd is not None:
            os.write(wfd, pickle.dumps(plan.events))
        os._exit(0)
    except BaseException:  # noqa
        try:
            sys.stderr.write(fmt_exc())
        finally:
            os._exit(99)


def crash_scenario(cfg, scen, max_points, n_warm=8, bufsize=8192, other_fs=False):
    """scen in {'fresh','overwrite'}.  Returns dict(bad, points, died, events)."""
    out = dict(bad=[], points=0, died=0, events=[], completed=0, kinds={})
    tmp = tmpdir(other_fs)
    if tmp is None:
        out["skip"] = "no second writable filesystem"
        return out
    try:
        c = runs.full(cfg)
        np.random.seed(c["seed"])
        s, t, like, pt = _build(c, tmp)
        s._core._initialize_fresh()
        s._core.n_total = c["n_total"]
        for _ in range(n_warm):
            s.sample()
        P = os.path.join(tmp, "ck_crash.state")
        backup = os.path.join(tmp, "backup.bin")
        old = None
        if scen == "overwrite":
            s.save_state(P)
            shutil.copyfile(P, backup)
            s2 = _build(c, tmp)[0]
            s2.load_state(P)
            old = state_digest(s2.state)
            s.sample()
        new = state_digest(s.state)
        if old == new:
            out["bad"].append(("harness", "old and new digests coincide"))
            return out
        # record the I/O event sequence of a complete save (in a child; parent stays unpatched)
        r, w = os.pipe()
        pid = os.fork()
        if pid == 0:
            os.close(r)
            _child_save(s, os.path.join(tmp, "ck_crash.state"), crash.Plan("record"), tmp, w, bufsize)
        os.close(w)
        buf = b""
        while True:
            ch = os.read(r, 1 << 16)
            if not ch:
                break
            buf += ch
        os.close(r)
        _, st = os.waitpid(pid, 0)
        if os.WEXITSTATUS(st) != 0 or not buf:
            out["bad"].append(("save-raises", f"recording save failed in child (exit {os.WEXITSTATUS(st)})"))
            return out
        events = pickle.loads(buf)
        out["events"] = [(k, d if not isinstance(d, int) else d) for k, d in events][:40]
        nwrites = sum(1 for k, _ in events if k == "write")

        def inner(nbytes, wi):
            if max_points >= 150:
                return sorted(set([1, nbytes - 1] + list(np.linspace(1, nbytes - 1, 12).astype(int))))
            return [1, nbytes // 2, nbytes - 1] if wi < 4 or wi >= nwrites - 2 else [nbytes // 2]
        pts = crash.kill_points(events, inner)
        if len(pts) > max_points:
            keep = sorted(set(np.linspace(0, len(pts) - 1, max_points).astype(int).tolist()))
            pts = [pts[i] for i in keep]

        def reset():
            for f in os.listdir(tmp):
                if f not in ("backup.bin",):
                    try:
                        os.unlink(os.path.join(tmp, f))
                    except OSError:
                        pass
            if scen == "overwrite":
                shutil.copyfile(backup, P)
        def short_writes():
            """The OS takes only part of one write() call and says so (file-size limit, full disk, interrupted call).  The save either
            completes with every byte on disk or raises; a file under the final name must load to the old or the new state."""
            widx = [i for i, (k_, d_) in enumerate(events) if k_ == "write" and isinstance(d_, int) and d_ > 1]
            pick = sorted(set([widx[0], widx[len(widx) // 2], widx[-1]])) if widx else []
            for target in pick:
                nb = events[target][1]
                for off in sorted(set([1, nb // 2, nb - 1])):
                    reset()
                    pid2 = os.fork()
                    if pid2 == 0:
                        _child_save(s, P, crash.Plan("short", target, off), tmp, None, bufsize)
                    _, st2 = os.waitpid(pid2, 0)
                    out["short_writes"] = out.get("short_writes", 0) + 1
                    where2 = f"write() #{target} of {len(events)} events accepted only {off} of {nb} bytes (child exit {os.WEXITSTATUS(st2)})"
                    if not os.path.exists(P):
                        if scen == "overwrite":
                            out["bad"].append(("crash-lost-old-checkpoint", f"{where2}: the previous checkpoint under the final name is gone"))
                        continue
                    sx = _build(c, tmp)[0]
                    try:
                        sx.load_state(P)
                        dgx = state_digest(sx.state)
                    except Exception as e:
                        out["bad"].append(("short-write-truncated-checkpoint", f"{where2}: the file under the final name ({os.path.getsize(P)} bytes) fails to load: "
                                           f"{type(e).__name__}: {str(e)[:80]}"))
                        return
                    if dgx not in (old, new):
                        out["bad"].append(("crash-mixed-checkpoint", f"{where2}: file loads to neither the complete old nor the complete new state"))
                        return

        def after_restart(where):
            """The crashed job is restarted: a fresh sampler in the same directory, same label, runs with checkpoints on.  Whatever the
            dead writer left behind must not end up under a checkpoint's final name, then or later."""
            sr = _build(c, tmp)[0]
            np.random.seed(c["seed"] + 5)
            try:
                with attach.Hooks() as hk2:
                    attach.iteration_budget(hk2, 2)
                    sr.run(n_total=10 ** 6, progress=False, save_every=1)
            except attach.IterationBudgetExceeded:
                pass
            except Exception as e:
                out["bad"].append(("restart-raises", f"{where}: a fresh run(save_every=1) in the directory of the crashed save raised {type(e).__name__}: {e}"))
                return
            out["restarts"] = out.get("restarts", 0) + 1
            for f in sorted(os.listdir(tmp)):
                if not f.endswith(".state"):
                    continue
                sx = _build(c, tmp)[0]
                try:
                    sx.load_state(os.path.join(tmp, f))
                    dgx = state_digest(sx.state)
                except Exception as e:
                    out["bad"].append(("crash-truncated-checkpoint", f"{where}, then a fresh run(save_every=1) in the same directory: {f} ({os.path.getsize(os.path.join(tmp, f))} bytes) "
                                       f"fails to load: {type(e).__name__}: {str(e)[:80]}"))
                    return
                if f == os.path.basename(P) and dgx not in (old, new):
                    out["bad"].append(("crash-mixed-checkpoint", f"{where}, then a restart: {f} loads to neither the complete old nor the complete new state"))
                    return

        for ip, (target, off, kind) in enumerate(pts + [(len(events) + 5, 0, "no-kill")]):
            reset()
            pid = os.fork()
            if pid == 0:
                _child_save(s, P, crash.Plan("kill", target, off), tmp, None, bufsize)
            _, st = os.waitpid(pid, 0)
            code = os.WEXITSTATUS(st)
            out["points"] += 1
            if code == 137 and ip % 4 == 1:
                out["_restart_due"] = True
            k0 = kind.split("+")[0]
            out["kinds"][k0] = out["kinds"].get(k0, 0) + 1
            if code == 137:
                out["died"] += 1
            elif code == 0:
                out["completed"] += 1
            else:
                out["bad"].append(("save-raises", f"child save exited {code} at kill point {kind}#{target}"))
                continue
            where = f"killed before I/O event #{target} ({kind}) of {len(events)}" if code == 137 else "complete save"
            if out.pop("_restart_due", False):
                # (the directory is inspected again after the restart; the immediate inspection below then sees the same files)
                pre_exists = os.path.exists(P)
                after_restart(where)
                if not pre_exists and os.path.exists(P) and scen == "fresh":
                    pass     # judged inside after_restart (must load to old/new)
            if not os.path.exists(P):
                if scen == "overwrite":
                    out["bad"].append(("crash-lost-old-checkpoint", f"{where}: the previous checkpoint under the final name is gone"))
                elif code == 0:
                    out["bad"].append(("checkpoint-missing", "complete save left no file"))
                continue
            s3 = _build(c, tmp)[0]
            try:
                s3.load_state(P)
                dg = state_digest(s3.state)
            except Exception as e:
                size = os.path.getsize(P)
                out["bad"].append(("crash-truncated-checkpoint", f"{where}: file under the final name ({size} bytes) fails to load: {type(e).__name__}: {str(e)[:80]}"))
                continue
            if code == 0 and dg != new:
                out["bad"].append(("restore-mismatch", "complete save does not load to the new state"))
            elif dg not in (old, new):
                out["bad"].append(("crash-mixed-checkpoint", f"{where}: file loads to neither the complete old nor the complete new state"))
        short_writes()
        return out
    finally:
        shutil.rmtree(tmp, ignore_errors=True)


# --------------------------------------------------------------------------- engine B: strace
CHILD = r"""
import sys, os, numpy as np, warnings
warnings.simplefilter('ignore')
from tvf import runs
from tvf.checks import c08
import json
cfg = json.loads(sys.argv[1]); tmp = sys.argv[2]; phase = sys.argv[3]
c = runs.full(cfg)
np.random.seed(c['seed'])
s, t, like, pt = c08._build(c, tmp)
s._core._initialize_fresh(); s._core.n_total = c['n_total']
for _ in range(int(sys.argv[4])):
    s.sample()
P = os.path.join(tmp, 'ck_crash.state')
if phase == 'old':
    s.save_state(P)
    print('DIGEST', c08.state_digest(s.state)); sys.exit(0)
s.sample()
print('DIGEST', c08.state_digest(s.state), flush=True)
os.close(os.open(os.path.join(tmp, 'MARK'), os.O_CREAT | os.O_WRONLY))
s.save_state(P)
"""


def strace_scenario(cfg, syscall, max_k):
    """Kill the saving process with SIGKILL at the k-th <syscall> touching the checkpoint dir."""
    import json
    out = dict(bad=[], points=0, died=0)
    if shutil.which("strace") is None:
        out["skip"] = "strace not installed"
        return out
    tmp = tmpdir()
    env = dict(os.environ)
    try:
        cj = json.dumps(cfg)
        r = subprocess.run([sys.executable, "-c", CHILD, cj, tmp, "old", "6"], capture_output=True, text=True, env=env, timeout=300)
        if r.returncode != 0:
            out["bad"].append(("save-raises", "strace scenario: initial save failed: " + r.stderr[-300:]))
            return out
        old = r.stdout.split("DIGEST")[1].split()[0]
        backup = os.path.join(tmp, "..", os.path.basename(tmp) + ".backup")
        shutil.copyfile(os.path.join(tmp, "ck_crash.state"), backup)
        for k in range(1, max_k + 1):
            for f in os.listdir(tmp):
                os.unlink(os.path.join(tmp, f))
            shutil.copyfile(backup, os.path.join(tmp, "ck_crash.state"))
            cmd = ["strace", "-f", "-qq", "-o", "/dev/null", "-P", os.path.join(tmp, "ck_crash.state"),
                   "-P", os.path.join(tmp, "ck_crash.state.temp"), "-P", tmp,
                   "-e", f"trace={syscall}", "-e", f"inject={syscall}:signal=SIGKILL:when={k}",
                   sys.executable, "-c", CHILD, cj, tmp, "new", "6"]
            r = subprocess.run(cmd, capture_output=True, text=True, env=env, timeout=300)
            out["points"] += 1
            new = r.stdout.split("DIGEST")[1].split()[0] if "DIGEST" in r.stdout else None
            died = r.returncode != 0
            if died:
                out["died"] += 1
            P = os.path.join(tmp, "ck_crash.state")
            where = f"SIGKILL at {syscall} #{k}" if died else f"{syscall} #{k} beyond the save (completed)"
            if not os.path.exists(P):
                out["bad"].append(("crash-lost-old-checkpoint", f"{where}: previous checkpoint gone"))
                continue
            c = runs.full(cfg)
            s3 = _build(c, tmp)[0]
            try:
                s3.load_state(P)
                dg = state_digest(s3.state)
            except Exception as e:
                out["bad"].append(("crash-truncated-checkpoint", f"{where}: final name holds {os.path.getsize(P)} bytes that fail to load ({type(e).__name__})"))
                continue
            if dg not in (old, new):
                out["bad"].append(("crash-mixed-checkpoint", f"{where}: loads to neither old nor new state"))
            if not died:
                break
        try:
            os.unlink(backup)
        except OSError:
            pass
        return out
    except subprocess.TimeoutExpired:
        out["skip"] = "timeout"
        return out
    finally:
        shutil.rmtree(tmp, ignore_errors=True)


def run():
    ck = Check("C08", level="fault_enumeration")
    ncfg = ck.pick(6, 16)
    idxs = [0, 1, 2, 3, 5, 11, 6] if ck.quick else list(range(ncfg))     # quick: incl. the integer-pool and cluster_every=2 configurations
    tasks = [("tvf.checks.c08:scenario", dict(cfg=make_cfg(i, ck.subseed("cfg", i)), n_resume=ck.pick(2, 6), seed2=ck.subseed("res", i)), None)
             for i in idxs]
    # checkpoints written from a hand-written loop over sample(save_every, t0)
    for j, man in enumerate(ck.pick([(1, 0, 6), (2, 1, 9)], [(1, 0, 6), (2, 1, 9), (3, 0, 10), (2, 0, 8), (4, 2, 12), (1, 3, 7)])):
        tasks.append(("tvf.checks.c08:scenario", dict(cfg=dict(make_cfg([0, 6, 2, 1, 4, 9][j], ck.subseed("man", j)), manual=man), n_resume=2, seed2=ck.subseed("manr", j)), None))
    # blobs that are not floats (int64 labels above 2^53, string labels in an object array)
    for j, md in enumerate(ck.pick(["blobsI", "blobsS"], ["blobsI", "blobsS", "blobsI", "blobsS"])):
        tasks.append(("tvf.checks.c08:scenario", dict(cfg=dict(make_cfg([2, 5, 14, 6][j], ck.subseed("bt", j)), mode=md, pool=None), n_resume=2, seed2=ck.subseed("btr", j)), None))
    # output_dir / output_label left at their defaults (./states/ps_*.state under the working directory)
    for j, i in enumerate(ck.pick([1, 2], [1, 2, 0, 6, 9, 11])):
        tasks.append(("tvf.checks.c08:scenario", dict(cfg=dict(make_cfg(i, ck.subseed("dcfg", i)), default_dir=True, progress=bool(j % 2)), n_resume=2, seed2=ck.subseed("dres", i)), None))
    # the same with the progress display on (run()'s default): the live bar is part of what a checkpoint pickles; incl. readers
    # with clustering and cluster_every > 1
    for j, i in enumerate(ck.pick([6, 9, 2], [6, 9, 2, 1, 0, 5, 12, 11])):
        tasks.append(("tvf.checks.c08:scenario", dict(cfg=dict(make_cfg(i, ck.subseed("pcfg", i)), progress=True, pathlib=bool(j % 2 == 0)), n_resume=2, seed2=ck.subseed("pres", i)), None))
    # particle coordinates in another precision than double (the prior transform's dtype is part of the particle state a checkpoint restores)
    for j, xd in enumerate(ck.pick(["longdouble", "float32"], ["longdouble", "float32", "longdouble", "float32"])):
        tasks.append(("tvf.checks.c08:scenario", dict(cfg=dict(make_cfg([0, 2, 4, 1][j], ck.subseed("xd", j)), xdtype=xd), n_resume=2, seed2=ck.subseed("xdr", j)), None))
    if not ck.quick:
        tasks += [("tvf.checks.c08:scenario", dict(cfg=make_cfg(i, ck.subseed("cfg2", i)), n_resume=4, seed2=ck.subseed("res2", i), second_gen=True), None)
                  for i in range(ncfg)]
    for i, st, val in farm.run(tasks, timeout=900, progress="C08-restore"):
        cfg = tasks[i][1]["cfg"]
        if st == "timeout":
            ck.inconc(f"scenario {cfg}: watchdog")
            continue
        if st != "ok":
            ck.violation("scenario-crashed", f"{cfg}: {st} {str(val)[-500:]}", dict(cfg=cfg))
            continue
        ck.case(dict(restore_resume=cfg), nontrivial=val["nontrivial_resume"] > 0)
        if cfg.get("xdtype"):
            ck.event("restore / resume scenarios with particle coordinates in float32 or extended precision")
        if cfg.get("mode") in ("blobsI", "blobsS"):
            ck.event("restore / resume scenarios with integer / string blobs")
        if cfg.get("manual"):
            ck.event("restore / resume scenarios whose writer is a hand-written sample(save_every, t0) loop")
        if cfg.get("pathlib"):
            ck.event("restore / resume scenarios with output_dir / state paths given as pathlib.Path")
        if cfg.get("default_dir"):
            ck.event("restore / resume scenarios with output_dir / output_label at their defaults (./states/ps_*.state)")
        if cfg.get("progress"):
            ck.event("restore / resume scenarios written and read with the progress display on")
        ck.event("checkpoints written", val["saves"])
        ck.event("checkpoints restored into a fresh sampler and compared", val["restored"])
        ck.event("resumed runs completed", val["resumed"])
        ck.event("resumed runs that executed further iterations", val["nontrivial_resume"])
        ck.event("second-generation resumes (checkpoint written by a resumed run)", val.get("second_gen", 0))
        for key, what in val["bad"]:
            ck.violation(key, what, dict(cfg=cfg))
    # checkpoints written by a re-used sampler object
    ut = []
    uvars = ["rewind-final-only", "foreign-last", "rewind-every-2", "foreign-mid", "rewind-every-1"]
    for j in range(ck.pick(5, 30)):
        ut.append(("tvf.checks.c08:used_writer_scenario", dict(cfg=make_cfg([0, 1, 2, 3, 5, 6][j % 6], ck.subseed("uw", j)), variant=uvars[j % 5],
                                                                seed2=ck.subseed("uw2", j) % 10 ** 6), None))
    for i, st, val in farm.run(ut, timeout=900, progress="C08-used-writer"):
        kw = ut[i][1]
        if st == "timeout":
            ck.inconc(f"used-writer scenario {kw['variant']}: watchdog")
            continue
        if st != "ok":
            ck.violation("scenario-crashed", f"{kw}: {st} {str(val)[-500:]}", kw)
            continue
        ck.case(dict(used_writer=kw), nontrivial=val["restored"] > 0)
        ck.event("checkpoints written by a sampler object after it had another history loaded", val["saves_after"])
        ck.event("... restored into a fresh sampler and compared", val["restored"])
        for key, what in val["bad"]:
            ck.violation(key, what, kw)
    # runs interrupted from inside the likelihood in the middle of an iteration
    it_ = []
    for j in range(ck.pick(6, 36)):
        it_.append(("tvf.checks.c08:interrupt_scenario", dict(cfg=dict(target=["gauss2", "bimodal"][j % 2], kernel=["tpcn", "rwm"][j % 2], clustering=bool(j % 2), N=32, n_total=96,
                                                                     seed=ck.subseed("int", j) % 10 ** 6),
                                                            at_frac=[0.35, 0.5, 0.65, 0.8, 0.2, 0.9][j % 6], kind=["sigint", "sigint", "error"][j % 3], save_every=[1, 2, 3][j % 3]), None))
    for i, st, val in farm.run(it_, timeout=900, progress="C08-interrupt"):
        kw = it_[i][1]
        if st == "timeout":
            ck.inconc(f"interrupt scenario {kw}: watchdog")
            continue
        if st != "ok":
            ck.violation("scenario-crashed", f"{kw}: {st} {str(val)[-500:]}", kw)
            continue
        ck.case(dict(interrupt=kw), nontrivial=val["interrupted"] > 0 and val["resumed"] > 0)
        ck.event("runs interrupted from inside the likelihood in the middle of an iteration", val["interrupted"])
        ck.event("checkpoint files found after an interrupted run, each restored and resumed", val["resumed"])
        for key, what in val["bad"]:
            ck.violation(key, what, kw)
    # crash points
    ctasks = []
    maxp = ck.pick(40, 260)
    ccfgs = [dict(target="gauss2", kernel="tpcn", clustering=False, mode="vec", N=ck.pick(128, 256), n_total=10 ** 6),
             dict(target="bimodal", kernel="rwm", clustering=True, mode="blobs", N=ck.pick(64, 256), n_total=10 ** 6)]
    if not ck.quick:
        ccfgs += [dict(target="gauss4", kernel="tpcn", clustering=True, mode="scalar", pool="threadlike", N=128, n_total=10 ** 6),
                  dict(target="vonmises", kernel="tpcn", clustering=False, mode="vec", N=512, n_total=10 ** 6)]
    # the user-space buffer of the file object is part of the schedule: default 8 KiB, almost unbuffered, and
    # "nothing reaches the OS before flush" (16 MiB) - a correct save is safe under all of them
    for j, cc in enumerate(ccfgs):
        for scen in ("overwrite", "fresh"):
            for bs in ((8192, 1 << 24) if ck.quick else (8192, 1 << 24, 64)):
                ctasks.append(("tvf.checks.c08:crash_scenario", dict(cfg=dict(cc, seed=ck.subseed("crash", j)), scen=scen, max_points=maxp,
                                                                      n_warm=ck.pick(8, 14), bufsize=bs), None))
    # the checkpoint directory on another filesystem than the system temp directory (a save that stages its temporary
    # file elsewhere degrades to copy-into-place there)
    for scen in ("overwrite", "fresh"):
        ctasks.append(("tvf.checks.c08:crash_scenario", dict(cfg=dict(ccfgs[0], seed=ck.subseed("crash-fs", scen)), scen=scen, max_points=maxp,
                                                              n_warm=ck.pick(8, 14), bufsize=8192, other_fs=True), None))
    for i, st, val in farm.run(ctasks, timeout=1500, progress="C08-crash"):
        kw = ctasks[i][1]
        if st == "timeout":
            ck.inconc(f"crash scenario {kw['scen']}: watchdog")
            continue
        if st != "ok":
            ck.violation("scenario-crashed", f"crash scenario: {st} {str(val)[-500:]}", dict(cfg=kw["cfg"]))
            continue
        if val.get("skip"):
            ck.note(f"crash scenario on a second filesystem skipped: {val['skip']}")
            continue
        if kw.get("other_fs"):
            ck.event("kill points with the checkpoint directory on another filesystem than the temp directory", val["points"])
        ck.case(dict(crash=dict(scen=kw["scen"], bufsize=kw["bufsize"], other_fs=bool(kw.get("other_fs")), cfg=kw["cfg"], io_events=val["events"][:12])), nontrivial=val["died"] > 0, sample=(i < 2))
        ck.event("kill points exercised", val["points"])
        ck.event("kill points at which the child really died", val["died"])
        ck.event("crashed saves followed by a fresh run(save_every=1) in the same directory, all checkpoint files re-inspected", val.get("restarts", 0))
        ck.event("saves during which one OS-level write() accepted only part of its bytes (short write)", val.get("short_writes", 0))
        for k, v in val["kinds"].items():
            ck.event(f"kill point before/inside {k}", v)
        for key, what in val["bad"]:
            ck.violation(key, what, dict(cfg=kw["cfg"], scen=kw["scen"], bufsize=kw["bufsize"]))
    if not ck.quick:
        stasks = [("tvf.checks.c08:strace_scenario", dict(cfg=dict(ccfgs[0], N=256, seed=ck.subseed("st", sc)), syscall=sc, max_k=mk), None)
                  for sc, mk in (("write", 40), ("rename", 3), ("fsync", 3), ("openat", 12), ("close", 12))]
        for i, st, val in farm.run(stasks, timeout=2400, progress="C08-strace"):
            sc = stasks[i][1]["syscall"]
            if st != "ok":
                ck.note(f"strace engine {sc}: {st} {str(val)[-200:]}")
                continue
            if val.get("skip"):
                ck.note(f"strace engine {sc}: skipped ({val['skip']})")
                continue
            ck.case(dict(strace=sc, points=val["points"]), nontrivial=val["died"] > 0)
            ck.event(f"strace SIGKILL injections at {sc}", val["points"])
            ck.event("strace injections at which the process died", val["died"])
            for key, what in val["bad"]:
                ck.violation(key, what, dict(engine="strace", syscall=sc))
    ck.require_events("checkpoints restored into a fresh sampler and compared", "resumed runs that executed further iterations",
                      "... restored into a fresh sampler and compared", "checkpoint files found after an interrupted run, each restored and resumed",
                      "kill points at which the child really died",
                      "crashed saves followed by a fresh run(save_every=1) in the same directory, all checkpoint files re-inspected")
    return ck.finish(
        rule="configurations {vec/scalar/blobs, tpcn/rwm, clustering, cluster_every, pool-like object, integer pool, volume mode, "
             "zero-likelihood region, random_state} x every checkpoint of a save_every=1 run restored and compared bitwise with the digest taken "
             "by a hook at save time; resume from evenly spaced checkpoints; crash: every I/O call (open/write/flush/fsync/replace/close) of a save "
             "is a kill point, plus byte offsets inside writes, for first-save and overwrite scenarios; non-trivial = resumed run executed further "
             "iterations / the child died at the kill point",
        assumptions=["process death only (no power loss: directory fsync is not demanded)", "digest = sha256 over current state and full history"],
    )

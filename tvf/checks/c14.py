"""C14 - cluster labels and proposal modes stay coherent for every history and cadence.

Invariant at hooks: at every entry of tempest.mcmc.parallel_mcmc (the kernel boundary) each
assignment must be < K, the mode it selects must have finite mean / SPD scale / positive
dof, and must have been fitted from the particles carrying that same label: the hook on
ModeStatistics.from_particles records label -> mode-index, the hook on the clusterer's
predict records the labels handed to the Resampler.
Workloads: (i) synthetic multimodal weighted pools pushed through the real Trainer.run +
Resampler.run over consecutive iterations (with and without refit), (ii) monitored real
runs on unequal multimodal targets, (iii) resume points.
"""
from __future__ import annotations

import os
import shutil

import numpy as np

from tvf import attach, farm, runs
from tvf.env import Check, fmt_exc


class Monitor:
    """Attaches the seams; collects violations as (key, what)."""

    def __init__(self, hk):
        self.bad = []
        self.n_entries = 0
        self.n_potential = 0
        self.n_refit_skipped = 0
        self.gaps = 0
        self.label_map = None       # labels (sorted unique) the current mode stats were fitted from
        self.fit_seen = 0
        self.min_distinct = None
        self.total_distinct = None
        self.fit_events = 0          # from_particles / from_global calls
        self.trainer_fitted = None   # did the most recent Trainer.run fit anything?
        self.n_tiny_beta = 0
        self.dim = None
        self.boxes = {}
        self.train_label = {}
        self.relabelled = 0
        from tempest.modes import ModeStatistics
        import tempest.steps.mutate as mut
        import tempest.mcmc as mc
        mon = self

        def fp_before(cls, u, weights, labels, *a, **k):
            lab = np.asarray(labels)
            uu = np.asarray(u)
            mon.label_map = [int(v) for v in np.unique(lab)]
            mon.fit_seen += 1
            mon.fit_events += 1
            mon.dim = uu.shape[1]
            mon.boxes = {}
            ww = np.asarray(weights, float)
            for v in mon.label_map:
                pts = uu[lab == v]
                pv = ww[lab == v] / max(float(np.sum(ww[lab == v])), 1e-300)
                # a label whose WEIGHTED training set is degenerate (its weight sits on <= d+1 effective DISTINCT particles -
                # identical rows pooled - so a weighted resample of it spans no volume with appreciable probability) may be
                # described by all particles, like a label with <= d distinct particles
                _, inv = np.unique(pts, axis=0, return_inverse=True)
                qv = np.bincount(np.ravel(inv), weights=pv)
                dd = uu.shape[1]
                # ... decided by a bound on the probability that the library's weighted resample (resample_factor x cluster size
                # draws) lands on <= d distinct rows: P <= C(m, d) * (mass of the d heaviest rows)^draws.  Below 1e-9 the
                # collapse cannot be what happened and the label is judged; otherwise it is not (counted).
                rf = int(k.get("resample_factor", a[1] if len(a) > 1 else 4))
                m_rows = len(qv)
                if m_rows <= dd:
                    n_eff = 0
                else:
                    topq = float(np.sum(np.sort(qv)[-dd:]))
                    draws = max(1, rf * len(pts))
                    import math as _m
                    logp = (_m.lgamma(m_rows + 1) - _m.lgamma(dd + 1) - _m.lgamma(m_rows - dd + 1)) + draws * _m.log(max(min(topq, 1.0), 1e-300))
                    n_eff = m_rows if logp < _m.log(1e-9) else 0
                    if n_eff == 0:
                        mon.weighted_degenerate = getattr(mon, "weighted_degenerate", 0) + 1
                mon.boxes[v] = (pts.min(0), pts.max(0), n_eff)
            mon.min_distinct = min(b[2] for b in mon.boxes.values())
            mon.total_distinct = len(np.unique(uu, axis=0))
            mon.train_label = {uu[i].tobytes(): int(lab[i]) for i in range(len(lab))}
        hk.wrap(ModeStatistics, "from_particles", before=fp_before)

        def fg_before(cls, *a, **k):
            mon.label_map = None
            mon.boxes = {}
            mon.fit_events += 1
        hk.wrap(ModeStatistics, "from_global", before=fg_before)

        from tempest.steps.train import Trainer as _Trainer

        def tr_before(self_, *a, **k):
            return mon.fit_events

        def tr_after(ctx, r, self_, *a, **k):
            mon.trainer_fitted = mon.fit_events > ctx
        hk.wrap(_Trainer, "run", before=tr_before, after=tr_after, label="Trainer.run(fit monitor)")

        def pm_before(*a, **k):
            mon.n_entries += 1
            bnow = k["beta"] if "beta" in k else None
            if bnow is not None and 0 < float(bnow) < 1e-4:
                mon.n_tiny_beta += 1
            if mon.trainer_fitted is False and len(mon.bad) < 10:
                # MCMC is about to run with the mode set of a training step that fitted nothing (a placeholder): those modes
                # were fitted from no particles at all
                ms_ = k["mode_stats"] if "mode_stats" in k else a[6]
                mon.bad.append(("mutation-with-unfitted-mode", f"the kernel is entered at beta={bnow!r} with a mode set that the training step of this iteration did not fit "
                                f"from any particles (means {np.asarray(ms_.means).round(3).tolist()[:2]}, K={ms_.K})"))
            ass = np.asarray(k["assignments"] if "assignments" in k else a[4])
            ms = k["mode_stats"] if "mode_stats" in k else a[6]
            mon.check_entry(ass, ms)
            # a particle that was part of the training set must carry the label it was trained under (the clusterer's
            # prediction for a point may not depend on which other points are predicted together with it)
            uu = np.asarray(k["u"] if "u" in k else a[0])
            if mon.train_label and mon.label_map is not None:
                diff = [(i, mon.train_label[uu[i].tobytes()], int(ass[i])) for i in range(len(ass)) if uu[i].tobytes() in mon.train_label
                        and mon.train_label[uu[i].tobytes()] != int(ass[i])]
                mon.n_label_compared = getattr(mon, "n_label_compared", 0) + sum(1 for i in range(len(ass)) if uu[i].tobytes() in mon.train_label)
                if diff:
                    i, lt, la = diff[0]
                    mon.bad.append(("label-changes-between-training-and-resampling", f"{len(diff)} of {len(ass)} active particles carry another label than the one "
                                    f"the same particle had when the modes were fitted (e.g. particle {i}: trained as {lt}, moved as {la})"))
        hk.wrap(mut, "parallel_mcmc", before=pm_before, label="parallel_mcmc")

    def check_entry(self, ass, ms, potential=False):
        K = ms.K
        who = "a pool particle that resampling can select (weight*N > 1e-6)" if potential else "an active particle"
        lm = self.label_map
        gap = lm is not None and lm != list(range(len(lm)))
        if gap:
            self.gaps += 1
        if ass.min() < 0 or ass.max() >= K:
            self.bad.append(("label-gap" if lm is not None else "assignment-out-of-range",
                             f"{who} carries cluster label {int(ass.max())} but only K={K} proposal modes exist "
                             f"(mode statistics were built from training labels {lm})"))
            return
        if lm is not None and self.boxes:
            for a in sorted(set(int(v) for v in ass)):
                box = self.boxes.get(a)
                if box is None or box[2] <= self.dim:
                    continue          # no (or degenerate) training cluster for this label: any valid mode is acceptable
                lo, hi, _ = box
                m = ms.means[a]
                tol = 1e-9 + 1e-9 * np.abs(hi - lo)
                if np.any(m < lo - tol) or np.any(m > hi + tol):
                    other = [b for b, (l2, h2, _) in self.boxes.items() if b != a and np.all(m >= l2 - tol) and np.all(m <= h2 + tol)]
                    self.bad.append(("label-gap", f"particles labelled {a} are moved with a mode whose location {np.round(m, 4)} lies outside the bounding box "
                                     f"[{np.round(lo, 4)}, {np.round(hi, 4)}] of the training particles labelled {a}"
                                     + (f" (it lies inside the box of label {other[0]})" if other else "") + f"; training labels {lm}"))
        for k in sorted(set(int(a) for a in ass)):
            if not np.all(np.isfinite(ms.means[k])):
                self.bad.append(("mode-mean-nonfinite", f"mode {k} mean {ms.means[k]}"))
            C = ms.covariances[k]
            if not np.all(np.isfinite(C)) or not np.allclose(C, C.T, rtol=1e-8, atol=1e-300) or np.linalg.eigvalsh(0.5 * (C + C.T)).min() <= 0:
                self.bad.append(("mode-scale-not-spd", f"mode {k} scale matrix is not symmetric positive definite"))
            nu = ms.degrees_of_freedom[k]
            if not (np.isfinite(nu) and nu > 0):
                self.bad.append(("mode-dof", f"mode {k} has degrees of freedom {nu!r}"))


def probe_kernel(kernel, cur, ms, beta_now):
    """One sweep of the real kernel with the noise switched off (RNG interposer): the proposal of each walker
    reveals which mode the kernel *actually used* for it.  Returns list of (walker, label, what)."""
    import tempest.mcmc as mc
    import tempest.steps.mutate as mut
    from tvf.tap import Tap
    u = np.asarray(cur["u"])
    n, d = u.shape
    lab = np.asarray(cur["assignments"])
    props = {}
    cls = mc.TPCNRunner if kernel == "tpcn" else mc.RWMRunner
    with attach.Hooks() as hk2:
        hk2.wrap(cls, "_propose", after=lambda ctx, res, self, k: props.__setitem__(int(k), (np.array(res, float), self.u[k].copy(), float(self.sigmas[self.assignments[k]]))))
        with Tap(cap=20 * n + 50) as tap:
            tap.serve("gamma", [1.0] * n)
            e1 = np.zeros(d)
            if kernel == "rwm":
                e1[0] = 1.0
            tap.serve("randn", [e1.copy() for _ in range(n)])
            tap.serve("rand", [np.ones(n)])           # uniform = 1: nothing is accepted, the state is untouched
            mut.parallel_mcmc(u=u, x=np.asarray(cur["x"]), logl=np.asarray(cur["logl"]), blobs=None, assignments=lab, beta=beta_now, mode_stats=ms,
                              log_likelihood=lambda x: (np.zeros(len(x)), None), prior_transform=lambda q: q, progress_bar=None,
                              n_steps=1, n_max=1.0 / d, sample=kernel, periodic=None, reflective=None, verbose=False)
    out = []
    for k, (p, uk, sig) in props.items():
        a = int(lab[k])
        if a >= ms.K:
            continue
        if kernel == "tpcn":
            c = np.sqrt(max(1.0 - sig ** 2, 0.0))
            if 1 - c < 1e-6:
                continue
            mu_used = (p - c * uk) / (1 - c)
            if np.max(np.abs(mu_used - ms.means[a])) > 1e-7 * (1 + np.max(np.abs(ms.means[a]))):
                other = [b for b in range(ms.K) if np.max(np.abs(mu_used - ms.means[b])) < 1e-7]
                out.append((k, a, f"walker {k} carries label {a} but its tpCN proposal contracts towards {np.round(mu_used, 5)}, the mean of mode "
                                  f"{other[0] if other else '?'}, not towards mode {a}'s mean {np.round(ms.means[a], 5)}"))
        else:
            col = (p - uk) / sig if sig != 0 else None
            if col is not None and np.max(np.abs(col - ms.chol_covariances[a][:, 0])) > 1e-7 * (1 + np.max(np.abs(col))):
                other = [b for b in range(ms.K) if np.max(np.abs(col - ms.chol_covariances[b][:, 0])) < 1e-9]
                out.append((k, a, f"walker {k} carries label {a} but its RWM increment uses the scale matrix of mode {other[0] if other else '?'}"))
    return out, len(props)


# ----------------------------------------------------------------------------- (i) synthetic pools
def gen_pool(rng, d, n_batches, N):
    kind = str(rng.choice(["equal", "dying", "tight-negligible", "duplicates", "three"]))
    k = 3 if kind == "three" else 2
    cent = np.array([[0.25] + [0.5] * (d - 1), [0.75] + [0.5] * (d - 1), [0.5] + [0.15] * (d - 1)])[:k]
    sds = np.full(k, 0.04)
    props = np.full(k, 1.0 / k)
    if kind == "dying":
        props = np.array([0.9, 0.1])
    if kind == "tight-negligible":
        sds = np.array([0.05, 0.004])
        props = np.array([0.85, 0.15])
    batches = []
    for b in range(n_batches):
        if b == 0:
            # like the warm-up batches of a real run: prior draws all over the cube (label -1: background)
            batches.append((rng.random((N, d)), np.full(N, -1)))
            continue
        lab = rng.choice(k, size=N, p=props)
        u = np.clip(cent[lab] + sds[lab, None] * rng.standard_normal((N, d)), 1e-6, 1 - 1e-6)
        if kind == "duplicates":
            u = u[rng.integers(0, max(2, N // 5), N)]
        batches.append((u, lab))
    return batches, kind, cent, sds, props


def pool_case(seed, cfg):
    """Drive the real Trainer + Resampler + (real kernel entry) over consecutive iterations."""
    from tempest.state_manager import StateManager
    from tempest.steps.train import Trainer
    from tempest.steps.resample import Resampler
    from tempest.cluster import HierarchicalGaussianMixture
    from tempest.config import TRIM_ESS, TRIM_BINS, DOF_FALLBACK
    import tempest.steps.mutate as mut
    rng = np.random.default_rng(seed)
    np.random.seed(seed % (2 ** 31))
    d, N = cfg["d"], cfg["N"]
    cap = cfg["cap"]
    clusterer = HierarchicalGaussianMixture(n_init=1, max_iterations=1000 if cap is None else cap - 1,
                                            min_points=None if cap is None else 4 * d, threshold_modifier=cfg["thr"],
                                            covariance_type="full", normalize=cfg["normalize"])
    sm = StateManager(d)
    tr = Trainer(sm, None, clusterer, cluster_every=cfg["cluster_every"], clustering=True, TRIM_ESS=TRIM_ESS, TRIM_BINS=TRIM_BINS, DOF_FALLBACK=DOF_FALLBACK)
    rs = Resampler(sm, N, resample=cfg["resample"], clusterer=clusterer, clustering=True)
    batches, kind, cent, sds, props = gen_pool(rng, d, cfg["iters"] + 2, N)
    out = dict(bad=[], entries=0, gaps=0, kind=kind, K_seen=[])
    with attach.Hooks() as hk:
        mon = Monitor(hk)
        start_iter = cfg["start_iter"]
        def logl_of(u, lab):
            lb = np.where(lab < 0, 0, lab)
            return -0.5 * np.sum(((u - cent[lb]) / sds[lb, None]) ** 2, axis=1)
        for t in range(cfg["iters"]):
            u, lab = batches[t]
            beta = 0.0 if t == 0 else min(1.0, 0.15 * t)
            sm.update_current(dict(u=u, x=u.copy(), logl=logl_of(u, lab), beta=beta, logz=0.0, iter=start_iter + t))
            sm.commit_current_to_history()
            it = start_iter + t + 1
            beta_now = min(1.0, 0.15 * (t + 1))
            if t == 0 and cfg.get("tiny_beta"):
                beta_now = float(cfg["tiny_beta"])       # the first annealing step of a sharply peaked problem
            sm.update_current(dict(iter=it, beta=beta_now))
            # importance weights of the pool: emphasise/kill a mode over time
            allu = sm.get_history("u", flat=True)
            lab_all = np.concatenate([b[1] for b in batches[: t + 1]])
            w = np.ones(len(allu))
            if kind in ("dying", "tight-negligible"):
                w = np.where(lab_all == 1, 10.0 ** (-0.7 * t * cfg["decay"]), 1.0)
            if cfg.get("sudden") is not None:
                dead, when = cfg["sudden"]
                if t >= when:
                    w = np.where(lab_all == dead % len(cent), w * 1e-30, w)
            w = w * rng.dirichlet(np.full(len(w), 2.0))
            if cfg.get("heavy") is not None and t >= 1:
                hc = cfg["heavy"] % len(cent)
                rows_h = np.where(lab_all == hc)[0]
                if len(rows_h) > 4 * d:
                    jh = int(rows_h[int(rng.integers(len(rows_h)))])
                    w[jh] = 0.0
                    w[jh] = float(rng.uniform(2.0, 6.0)) * float(np.sum(w[rows_h]))
                    # ... and the cluster as a whole holds a minor share of the pool
                    share = float(rng.uniform(0.08, 0.3))
                    rest = float(np.sum(w) - np.sum(w[rows_h]))
                    if rest > 0:
                        w[rows_h] *= share / (1 - share) * rest / float(np.sum(w[rows_h]))
                    out["heavy"] = out.get("heavy", 0) + 1
            bgm = lab_all < 0
            if bgm.any() and (~bgm).any():
                w[bgm] *= 0.004 * w[~bgm].sum() / w[bgm].sum()      # background: 0.4 % of the mass in many tiny weights (trimmed, yet selectable)
            w = w / w.sum()
            # directed scenario: between refits, one *chosen* cluster label (every label gets its turn, incl. the
            # highest one) loses all its trimmed training points but keeps ~0.3% of the resampling mass
            nonrefit = clusterer.n_clusters_ >= 2 and it % cfg["cluster_every"] != 0
            if cfg.get("victim") is not None and nonrefit:
                labs = np.asarray(clusterer.predict(allu))
                v = cfg["victim"] % clusterer.n_clusters_
                vm = labs == v
                if 0 < vm.sum() < len(labs):
                    w = rng.uniform(0.8, 1.2, len(labs))
                    w[vm] *= 0.003 * w[~vm].sum() / w[vm].sum()
                    w = w / w.sum()
                    out["directed"] = out.get("directed", 0) + 1
            try:
                ms = tr.run(w.copy())
                rs.run(w.copy())
            except Exception as e:
                if isinstance(e, np.linalg.LinAlgError) and mon.total_distinct is not None and mon.total_distinct <= mon.dim:
                    # the whole trimmed training set holds <= d distinct points: no estimator can produce a positive-definite
                    # scale matrix and mutation never runs, so the property says nothing about this pool (generator artefact:
                    # the reweighting step of a real run keeps the effective sample size far above d)
                    out["degenerate_pool"] = out.get("degenerate_pool", 0) + 1
                    break
                fitted = clusterer.n_clusters_ > 0
                tiny = mon.min_distinct is not None and mon.min_distinct <= mon.dim
                key = "predict-on-unfitted-clusterer" if not fitted else "tiny-cluster-singular-scale" if (tiny and isinstance(e, np.linalg.LinAlgError)) \
                    else f"trainer-resampler-raises-{type(e).__name__}"
                if tiny:
                    e = f"{e} (a predicted label is carried by only {mon.min_distinct} distinct training point(s) in d={mon.dim})"
                out["bad"].append((key, f"iteration {it} (cluster_every={cfg['cluster_every']}): {type(e).__name__}: {e}"))
                break
            out["K_seen"].append(int(ms.K))
            cur = sm.get_current()
            if clusterer.n_clusters_ >= 2:
                probe = allu[w * N > 1e-6][:200]
                l1 = np.asarray(clusterer.predict(probe))
                far = np.vstack([probe, rng.random((8, d)), np.full((1, d), 0.999), np.full((1, d), 0.001)])
                l2 = np.asarray(clusterer.predict(far))[: len(probe)]
                l3 = np.asarray(clusterer.predict(probe))
                out["purity"] = out.get("purity", 0) + len(probe)
                if t == cfg["iters"] - 1 and len(probe):
                    # the pool of a long run is labelled in ONE call of tens of thousands of rows: the probes, placed at the END of such a
                    # batch, must keep their labels
                    nlong = int(rng.choice([16385, 20011, 40003, 70001]))
                    filler = allu[rng.integers(0, len(allu), nlong - len(probe))]
                    l4 = np.asarray(clusterer.predict(np.vstack([filler, probe])))[-len(probe):]
                    out["long_batches"] = out.get("long_batches", 0) + 1
                    if not np.array_equal(l1, l4):
                        out["bad"].append(("label-changes-between-training-and-resampling", f"iteration {it}: {int(np.sum(l1 != l4))} of {len(probe)} particles get another label when "
                                           f"they are predicted at the end of a batch of {nlong} rows (the trimmed pool of a long run) than when predicted alone"))
                if not np.array_equal(l1, l2) or not np.array_equal(l1, l3):
                    nd = int(np.sum(l1 != l2) + np.sum(l1 != l3))
                    out["bad"].append(("label-changes-between-training-and-resampling", f"iteration {it}: the clusterer's label of a particle depends on which other points are "
                                       f"predicted with it / on earlier predict calls ({nd} of {len(probe)} labels differ; normalize={cfg['normalize']}, K={clusterer.n_clusters_})"))
            # every pool particle that resampling can select (weight not negligible) is a potential active particle
            live = w * N > 1e-6
            if live.any():
                pot = np.asarray(clusterer.predict(allu[live]))
                mon.n_potential += int(live.sum())
                mon.check_entry(pot, ms, potential=True)
            # which mode does the kernel actually use for each walker?  (noise switched off)
            try:
                wrong, nprobe = probe_kernel(cfg["kernel"], cur, ms, beta_now)
                out["probed"] = out.get("probed", 0) + nprobe
                if wrong:
                    out["bad"].append(("label-gap", wrong[0][2] + f" ({len(wrong)} walkers; labels present {sorted(set(int(v) for v in cur['assignments']))}, K={ms.K})"))
            except Exception:
                pass      # exceptions of the kernel are reported by the real call below
            # the kernel boundary: hand exactly what Mutator.run would hand over
            try:
                mut.parallel_mcmc(u=cur["u"], x=cur["x"], logl=cur["logl"], blobs=None, assignments=cur["assignments"], beta=beta_now,
                                  mode_stats=ms, log_likelihood=lambda x: (np.zeros(len(x)), None), prior_transform=lambda q: q,
                                  progress_bar=None, n_steps=1, n_max=1, sample=cfg["kernel"], periodic=None, reflective=None, verbose=False)
            except Exception as e:
                gap = mon.label_map is not None and int(np.max(cur["assignments"])) >= ms.K
                out["bad"].append(("label-gap" if (gap or isinstance(e, IndexError)) else f"kernel-raises-{type(e).__name__}",
                                   f"iteration {it}: kernel raised {type(e).__name__}: {e} (modes fitted from labels {mon.label_map}, K={ms.K}, max assignment {int(np.max(cur['assignments']))})"))
                break
        out["bad"] += mon.bad
        out["entries"] = mon.n_entries
        out["gaps"] = mon.gaps
        out["potential"] = mon.n_potential
        out["label_compared"] = getattr(mon, "n_label_compared", 0)
        out["tiny_beta"] = mon.n_tiny_beta
    return out


# ----------------------------------------------------------------------------- (ii) monitored real runs
def real_case(cfg, resume=False):
    out = dict(bad=[], entries=0, gaps=0, fits=0)
    c = runs.full(cfg)
    tmp = None
    try:
        with attach.Hooks() as hk:
            mon = Monitor(hk)
            attach.iteration_budget(hk, 400)
            from tempest.steps.resample import Resampler
            from tempest.steps.train import Trainer
            last_ms = {}
            hk.wrap(Trainer, "run", after=lambda ctx, r, self, w: last_ms.__setitem__("ms", r))

            def rs_after(ctx, r, self, weights):
                if not self.clustering or self.state.get_current("beta") == 0.0 or "ms" not in last_ms:
                    return
                wv = np.asarray(weights)
                live = wv * self.n_particles > 1e-6
                if live.any():
                    allu = self.state.get_history("u", flat=True)
                    mon.n_potential += int(live.sum())
                    mon.check_entry(np.asarray(self.clusterer.predict(allu[live])), last_ms["ms"], potential=True)
            hk.wrap(Resampler, "run", after=rs_after)
            np.random.seed(c["seed"])
            if resume:
                from tvf.checks.c08 import tmpdir
                tmp = tmpdir()
                c = dict(c, output_dir=tmp, output_label="r")
                s, t, like, pt = runs.build(c)
                s.run(n_total=c["n_total"], progress=runs.prog(c), save_every=1)
                files = sorted([f for f in os.listdir(tmp) if f.startswith("r_") and "final" not in f], key=lambda f: int(f.split("_")[1].split(".")[0]))
                pick = files[len(files) // 2] if files else None
                if pick and resume == "used":
                    # the SAME object goes on: a few further iterations (so that the last one need not be a refit), then its
                    # history is replaced by an earlier checkpoint of its own and it runs again
                    for _ in range(1 + int(c["seed"]) % 3):
                        s.sample()
                    for pk in (files[max(0, len(files) // 3)], files[len(files) // 2]):
                        s.run(n_total=int(1.5 * c["n_total"]), progress=runs.prog(c), resume_state_path=os.path.join(tmp, pk))
                    out["used_resume"] = 1
                elif pick:
                    s2, _, _, _ = runs.build(c)
                    s2.run(n_total=c["n_total"], progress=runs.prog(c), resume_state_path=os.path.join(tmp, pick))
            else:
                s, t, like, pt = runs.build(c)
                s.run(n_total=c["n_total"], progress=runs.prog(c))
        out["bad"] += mon.bad
    except Exception as e:
        gap = mon.label_map is not None and mon.label_map != list(range(len(mon.label_map)))
        tb = fmt_exc()
        tiny = mon.min_distinct is not None and mon.min_distinct <= mon.dim
        if "in predict" in tb and mon.fit_seen == 0:
            key = "predict-on-unfitted-clusterer"
        elif tiny and isinstance(e, np.linalg.LinAlgError):
            key = "tiny-cluster-singular-scale"
        elif gap or (isinstance(e, IndexError) and "_propose" in tb):
            key = "label-gap"
        else:
            key = f"run-raises-{type(e).__name__}"
        out["bad"] += mon.bad
        out["bad"].append((key, f"{'resumed ' if resume else ''}run raised {type(e).__name__}: {e} (modes fitted from labels {mon.label_map})\n{tb[-300:]}"))
    finally:
        if tmp:
            shutil.rmtree(tmp, ignore_errors=True)
    out["entries"] = mon.n_entries
    out["gaps"] = mon.gaps
    out["fits"] = mon.fit_seen
    out["potential"] = mon.n_potential
    out["label_compared"] = getattr(mon, "n_label_compared", 0)
    out["tiny_beta"] = mon.n_tiny_beta
    return out


def run():
    ck = Check("C14")
    rng = ck.rng("pools")
    npool = ck.pick(300, 5000)
    tasks = []
    for i in range(npool):
        cfg = dict(d=int(rng.choice([2, 3])), N=int(rng.choice([40, 80])), cap=[None, 1, 2, 3][int(rng.integers(4))],
                   thr=float(rng.choice([0.5, 1.0])), normalize=bool(rng.integers(2)), cluster_every=int(rng.choice([1, 2, 3, 5])),
                   resample=str(rng.choice(["mult", "syst"])), iters=int(rng.integers(4, 9)), start_iter=int(rng.integers(0, 4)),
                   decay=float(rng.choice([0.5, 1.0, 2.0])), kernel=str(rng.choice(["tpcn", "rwm"])),
                   sudden=(None if rng.random() < 0.4 else (int(rng.integers(3)), int(rng.integers(1, 5)))),
                   victim=(None if rng.random() < 0.5 else int(rng.integers(0, 12))))
        cfg["tiny_beta"] = [None, None, None, 6.1e-5, 1e-7, 9.9e-5][i % 6]
        # one particle carries ~3/4 of its cluster's weight (in-cluster ESS < 2) while the cluster keeps dozens of distinct rows
        cfg["heavy"] = [None, 0, None, 1, None, 2, None][i % 7]
        tasks.append(("tvf.checks.c14:pool_case", dict(seed=ck.subseed("pool", i), cfg=cfg), None))
    for i, st, val in farm.run(tasks, timeout=600, progress="C14-pools"):
        kw = tasks[i][1]
        if st == "timeout":
            ck.inconc(f"pool case {kw['cfg']}: watchdog")
            continue
        if st != "ok":
            ck.violation("pool-case-crashed", f"{kw['cfg']}: {st} {str(val)[-400:]}", kw)
            continue
        ck.case(dict(pool=kw["cfg"], kind=val["kind"]), nontrivial=max(val["K_seen"] or [0]) > 1)
        ck.event("synthetic pool sequences through Trainer.run + Resampler.run")
        ck.event("directed iterations (a chosen label loses all trimmed training points between refits)", val.get("directed", 0))
        ck.event("pool sequences cut short because the whole trimmed training set held <= d distinct points (not judged)", val.get("degenerate_pool", 0))
        ck.event("iterations in which one particle carries most of its cluster's weight (the cluster keeps many distinct rows)", val.get("heavy", 0))
        ck.event("kernel entries (parallel_mcmc) checked", val["entries"])
        ck.event("kernel entries at a temperature strictly between 0 and 1e-4", val.get("tiny_beta", 0))
        ck.event("walkers whose actually-used mode was identified by a noise-free probe sweep", val.get("probed", 0))
        ck.event("potential assignments (selectable pool particles) checked", val.get("potential", 0))
        ck.event("active particles whose label was compared with their training label", val.get("label_compared", 0))
        ck.event("labels re-predicted inside a different batch (purity of predict)", val.get("purity", 0))
        ck.event("probe particles re-predicted at the end of a batch of more than 16384 rows", val.get("long_batches", 0))
        ck.event("iterations where the predicted label set had a gap", val["gaps"])
        seen = set()
        for key, what in val["bad"]:
            if key not in seen:
                seen.add(key)
                ck.violation(key, what, kw)
    # real runs
    rt = []
    nreal = ck.pick(24, 300)
    for i in range(nreal):
        cfg = dict(target="bimodal", tkw=dict(p=[0.7, 0.9, 0.5][i % 3], sep=[6.0, 4.0][(i // 3) % 2]), N=[48, 96][(i // 2) % 2], n_total=[192, 300][i % 2],
                   kernel=["tpcn", "rwm"][i % 2], resample=["mult", "syst"][(i // 2) % 2], clustering=True,
                   cluster_every=[1, 2, 3, 5][i % 4], n_max_clusters=[None, 2, 3, 1][(i // 4) % 4], normalize=bool((i // 8) % 2),
                   mode="vec", seed=ck.subseed("real", i))
        rt.append(("tvf.checks.c14:real_case", dict(cfg=cfg, resume=(i % 6 == 5)), None))
    for i in range(ck.pick(8, 60)):
        cfg = dict(target="bimodal", tkw=dict(p=[0.7, 0.5][i % 2], sep=6.0), N=[48, 64][i % 2], n_total=[192, 256][i % 2],
                   kernel=["tpcn", "rwm"][i % 2], resample=["mult", "syst"][(i // 2) % 2], clustering=True,
                   cluster_every=[3, 2, 4, 5][i % 4], n_max_clusters=[None, 2][(i // 4) % 2], normalize=bool((i // 2) % 2),
                   mode="vec", seed=ck.subseed("used", i))
        rt.append(("tvf.checks.c14:real_case", dict(cfg=cfg, resume="used"), None))
    for i in range(ck.pick(4, 24)):
        # a likelihood 400 times narrower than the prior: the first annealing temperature is ~6e-5
        cfg = dict(target="gauss2", tkw=dict(half=10.0, sd=[0.05, 0.04, 0.06][i % 3]), N=[48, 64][i % 2], n_total=[96, 128][i % 2], kernel=["tpcn", "rwm"][i % 2],
                   resample=["mult", "syst"][(i // 2) % 2], clustering=bool((i + 1) % 2), cluster_every=[1, 2][(i // 2) % 2], mode="vec", seed=ck.subseed("narrow", i))
        rt.append(("tvf.checks.c14:real_case", dict(cfg=cfg, resume=False), None))
    for i, st, val in farm.run(rt, timeout=900, progress="C14-runs"):
        kw = rt[i][1]
        if st == "timeout":
            ck.inconc(f"real run {kw['cfg']}: watchdog")
            continue
        if st != "ok":
            ck.violation("real-case-crashed", f"{kw['cfg']}: {st} {str(val)[-400:]}", kw)
            continue
        ck.case(dict(real=kw["cfg"], resume=kw["resume"]), nontrivial=val["fits"] > 0)
        ck.event("monitored real runs" + (" (same object re-loaded from its own checkpoints and continued)" if kw["resume"] == "used" else " (with resume)" if kw["resume"] else ""))
        ck.event("kernel entries (parallel_mcmc) checked", val["entries"])
        ck.event("kernel entries at a temperature strictly between 0 and 1e-4", val.get("tiny_beta", 0))
        ck.event("potential assignments (selectable pool particles) checked", val.get("potential", 0))
        ck.event("active particles whose label was compared with their training label", val.get("label_compared", 0))
        ck.event("iterations where the predicted label set had a gap", val["gaps"])
        seen = set()
        for key, what in val["bad"]:
            if key not in seen:
                seen.add(key)
                ck.violation(key, what, kw)
    ck.require_events("synthetic pool sequences through Trainer.run + Resampler.run", "kernel entries (parallel_mcmc) checked", "monitored real runs",
                      "kernel entries at a temperature strictly between 0 and 1e-4",
                      "monitored real runs (with resume)", "monitored real runs (same object re-loaded from its own checkpoints and continued)")
    return ck.finish(
        rule="synthetic weighted multimodal pools (equal / dying mode / tight negligible-weight mode / duplicated points / three modes) pushed "
             "through real Trainer.run + Resampler.run + kernel entry for 4-8 consecutive iterations with cluster_every {1,2,3,5}, caps {None,1,2,3}, "
             "normalise on/off, start iteration 0-3; monitored real runs on unequal bimodal targets incl. resume from a mid-run checkpoint; "
             "non-trivial = more than one mode was fitted",
        assumptions=["a mode fitted from a cluster has its location inside that cluster's bounding box (C19); labels owning <= n_dim distinct training points are not judged"],
    )

"""C10 - rescaling the likelihood shifts log-evidence only.

Metamorphic pairs: the same seeded run with logL and with logL + c.  Discrete structure
(iterations, steps, calls) must be identical, beta / particles / normalised weights / ESS
equal up to rounding, every recorded logZ_t shifted by beta_t*c.  A mismatch must
reproduce on 2 of 3 further seeds of the same cell (guards against a single accept/reject
flip caused by 1e-16 rounding in the step-size adaptation).
"""
from __future__ import annotations

import numpy as np

from tvf import attach, farm, runs
from tvf.env import Check, fmt_exc


def pair(cfg, c, seed):
    out = {}
    for tag, shift in (("a", 0.0), ("b", c)):
        cc = dict(cfg, seed=seed, shift=shift)
        cc.pop("pin_limit", None)
        try:
            with attach.Hooks() as hk:
                # optional injected decision (same in both runs of the pair): an iteration is decided at a temperature in the
                # last 1e-4 below one, which ordinary schedules step over
                pl = attach.pin_limit(hk, cfg.get("pin_limit"))
                s, t, like, pt = runs.run(cc)
        except Exception as e:
            return [("run-raises", f"shift={shift}: {type(e).__name__}: {e}")], 0
        H = runs.history(s)
        if cfg.get("pin_limit") is not None and not pl["n"]:
            return [], -1       # no iteration of this run had an ESS limit of exactly 1.0 late enough: nothing was injected
        x, w, l = s.posterior(trim_importance_weights=False)
        out[tag] = dict(H=H, w=w, logz=float(s.evidence()[0]))
    A, B = out["a"], out["b"]
    bad = []
    Ha, Hb = A["H"], B["H"]
    Ta, Tb = len(Ha["beta"]), len(Hb["beta"])
    if Ta != Tb:
        return [("structure-changed", f"{Ta} iterations without shift, {Tb} with c={c}")], Ta
    if [int(v) for v in Ha["steps"]] != [int(v) for v in Hb["steps"]] or [int(v) for v in Ha["calls"]] != [int(v) for v in Hb["calls"]]:
        bad.append(("structure-changed", f"MCMC steps/calls differ: {[int(v) for v in Ha['steps']]} vs {[int(v) for v in Hb['steps']]}"))
    ba, bb = np.array(Ha["beta"], float), np.array(Hb["beta"], float)
    if np.max(np.abs(ba - bb)) > 1e-9:
        # is the temperature the FIRST thing that differs (all earlier particles identical)?  Then the reweighting step decided
        # differently on the same pool - that is not a rounding-induced accept/reject flip and needs no reproduction on other seeds
        t0 = int(np.argmax(np.abs(ba - bb) > 1e-9))
        same_prefix = all(Ha["u"][t].shape == Hb["u"][t].shape and np.max(np.abs(Ha["u"][t] - Hb["u"][t])) <= 1e-12 for t in range(t0))
        key = "!schedule-depends-on-constant" if same_prefix else "schedule-changed"
        bad.append((key, f"temperature schedule differs by {np.max(np.abs(ba - bb)):.3g} first at iteration {t0 + 1} ({ba[t0]!r} vs {bb[t0]!r}; "
                    f"all particles of earlier iterations identical: {same_prefix})"))
    for t in range(Ta):
        if Ha["u"][t].shape != Hb["u"][t].shape or np.max(np.abs(Ha["u"][t] - Hb["u"][t])) > 1e-9:
            bad.append(("particles-changed", f"particles of iteration {t + 1} differ"))
            break
        if np.max(np.abs((Hb["logl"][t] - c) - Ha["logl"][t])) > 1e-9 * (1 + abs(c)):
            bad.append(("particles-changed", f"log-likelihoods of iteration {t + 1} differ beyond the shift"))
            break
    ea, eb = np.array(Ha["ess"], float), np.array(Hb["ess"], float)
    if np.max(np.abs(ea - eb) / np.maximum(1, ea)) > 1e-8:
        bad.append(("ess-changed", f"ESS sequence differs: {ea[:6]} vs {eb[:6]}"))
    if len(A["w"]) != len(B["w"]) or not np.allclose(A["w"], B["w"], rtol=1e-8, atol=1e-18):
        bad.append(("weights-changed", "normalised posterior weights differ"))
    za, zb = np.array(Ha["logz"], float), np.array(Hb["logz"], float)
    dz = (zb - za) - bb * c
    tol = 1e-9 * (1 + abs(c))
    if np.max(np.abs(dz)) > tol:
        j = int(np.argmax(np.abs(dz)))
        bad.append(("logz-shift", f"recorded logZ at iteration {j + 1} (beta={bb[j]:.6g}) moved by {zb[j] - za[j]:.9g} instead of beta*c={bb[j] * c:.9g}"))
    if abs((B["logz"] - A["logz"]) - c) > tol:
        bad.append(("logz-shift", f"final evidence moved by {B['logz'] - A['logz']:.9g} instead of c={c}"))
    return bad, Ta


def cell(cfg, c, seeds):
    bad, T = pair(cfg, c, seeds[0])
    if T == -1:
        for sd in seeds[1:4]:       # the injection needs an iteration whose ESS limit is 1.0 late in the run: try other seeds
            bad, T = pair(cfg, c, sd)
            if T != -1:
                break
    if not bad:
        return [], T, 1
    if any(k.startswith("!") for k, _ in bad):
        # decisive: confirm determinism by repeating the very same pair once
        b2, _ = pair(cfg, c, seeds[0])
        if any(k.startswith("!") for k, _ in b2):
            return [(k.lstrip("!"), w) for k, w in bad if k.startswith("!")], T, 2
    bad = [(k.lstrip("!"), w) for k, w in bad]
    # reproduce on 3 further seeds
    rep = 0
    for sd in seeds[1:4]:
        b2, _ = pair(cfg, c, sd)
        if any(k2 == bad[0][0] for k2, _ in b2):
            rep += 1
    if rep >= 2:
        return bad, T, 4
    return [], T, 4


def run():
    ck = Check("C10")
    shifts = ck.pick([1e3, -1e3, 37.5, -0.731, 5.0, -700.0, 0.5, 750.0], [1e3, -1e3, 37.5, -37.5, 1e-3, -0.731, 512.0, -999.99, 5.0, -700.0, 0.5, 750.0, 2.0, -5.0])
    cfgs = []
    for i in range(ck.pick(24, 96)):
        cfgs.append(dict(runs.small_cfg(i), volume_variation=[None, 1.0][(i // 3) % 2]))
    tasks = []
    for i, cfg in enumerate(cfgs):
        for j, c in enumerate(shifts if not ck.quick else [shifts[i % len(shifts)]]):
            seeds = [ck.subseed("s", i, j, r) % 10 ** 6 for r in range(4)]
            cfg2 = {k: v for k, v in cfg.items() if k != "seed"}
            tasks.append(("tvf.checks.c10:cell", dict(cfg=cfg2, c=float(c), seeds=seeds), None))
    # long histories (> 4096 stored samples) and shifts that are not on any decimal lattice
    import math
    for j, (c, kern) in enumerate(ck.pick([(math.pi * 100, "tpcn"), (-math.e, "rwm")], [(math.pi * 100, "tpcn"), (-math.e, "rwm"), (1 / 3, "tpcn"), (-math.sqrt(2) * 300, "rwm")])):
        big = dict(target=["gauss2", "bimodal"][j % 2], N=256, n_total=4096, kernel=kern, resample=["mult", "syst"][j % 2], clustering=bool(j % 2), mode="vec")
        tasks.append(("tvf.checks.c10:cell", dict(cfg=big, c=float(c), seeds=[ck.subseed("big", j, r) % 10 ** 6 for r in range(4)]), None))
    # more than 1024 particles through a vectorised likelihood
    for j in range(ck.pick(1, 3)):
        tasks.append(("tvf.checks.c10:cell", dict(cfg=dict(target="gauss2", N=[1100, 2049, 1025][j], n_total=[2200, 4098, 2050][j], kernel=["tpcn", "rwm"][j % 2], resample="syst",
                                                           clustering=False, mode="vec"), c=float([-40.0, 333.3, 1e3][j]),
                                                   seeds=[ck.subseed("bigvec", j, r) % 10 ** 6 for r in range(4)]), None))
    nbig = ck.pick(1, 3)
    lp = [1 - 5e-5, 1 - 2 ** -14, 1 - 9.9e-5, 1 - 1e-6]
    npin = ck.pick(8, 48)
    for j in range(npin):
        cfgp = {k: v for k, v in runs.small_cfg(j + 2).items() if k != "seed"}
        cfgp.update(volume_variation=[None, 1.0][j % 2], pin_limit=lp[j % len(lp)])
        tasks.append(("tvf.checks.c10:cell", dict(cfg=cfgp, c=float([1e3, -1e3, 100 * math.sqrt(2), -37.25][j % 4]),
                                                   seeds=[ck.subseed("pin", j, r) % 10 ** 6 for r in range(4)]), None))
    # the prior transform hands over single-precision coordinates (nothing derived from logL may inherit that precision:
    # rounding logL on an absolute grid does not commute with the shift)
    n32 = ck.pick(6, 36)
    for j in range(n32):
        cfg32 = {k: v for k, v in runs.small_cfg(j + 3).items() if k != "seed"}
        cfg32.update(xdtype="float32", mode=["scalar", "vec", "blobs", "scalar"][j % 4])
        tasks.append(("tvf.checks.c10:cell", dict(cfg=cfg32, c=float([700.0, -950.0, 300.0, 1e3, -64.0, 2 ** 20 + 0.5][j % 6]),
                                                   seeds=[ck.subseed("f32", j, r) % 10 ** 6 for r in range(4)]), None))
    # likelihood exactly zero on part of the prior, shifted so far that exp(logL + c) under- or overflows: whatever decides
    # which prior draws are supported must look at the log-likelihood, not at the likelihood
    nsup = ck.pick(6, 24)
    for j in range(nsup):
        cfgs_ = dict(target="support", tkw=dict(f=[0.5, 0.7, 0.3][j % 3], s=[0.05, 0.2][j % 2]), N=[32, 48][j % 2], n_total=[96, 144][j % 2], ess_ratio=[2.0, 3.0][j % 2],
                     kernel=["tpcn", "rwm"][j % 2], resample=["mult", "syst"][j % 2], clustering=bool(j % 2), mode=["vec", "scalar", "blobs"][j % 3])
        tasks.append(("tvf.checks.c10:cell", dict(cfg=cfgs_, c=float([-700.0 - math.pi, -650.0 + math.sqrt(2), 705.0 + math.e, -1000.0, 1000.0, -745.2][j % 6]),
                                                   seeds=[ck.subseed("sup", j, r) % 10 ** 6 for r in range(4)]), None))
    # a weakly informative likelihood (logL varies by 1e-6..1e-3 over the prior) sitting on a large constant: comparisons of logL
    # values with a relative tolerance see "no change" for one constant and "change" for another
    nweak = ck.pick(6, 24)
    for j in range(nweak):
        cfgw = dict(target=["gauss2", "gauss4"][j % 2], tkw=dict(sd=[300.0, 3000.0, 100.0][j % 3]), N=[32, 48][j % 2], n_total=[128, 192][j % 2],
                    kernel=["rwm", "tpcn"][j % 2], resample=["mult", "syst"][(j // 2) % 2], clustering=bool((j // 2) % 2), mode=["vec", "scalar"][j % 2])
        tasks.append(("tvf.checks.c10:cell", dict(cfg=cfgw, c=float([1000.0, -800.0, 1e4, -1e5, 333.3, -12345.678][j % 6]),
                                                   seeds=[ck.subseed("weak", j, r) % 10 ** 6 for r in range(4)]), None))
    # sharply peaked likelihoods (logL spans 1e4..1e6 over the prior): anything that scales a search resolution or a tolerance with
    # the magnitude of logL instead of its range changes with the additive constant
    npeak = ck.pick(8, 36)
    for j in range(npeak):
        cfgp = dict(target=["gauss2", "gauss4"][j % 2], tkw=dict(half=5.0, sd=[0.045, 0.03][j % 2]), N=[32, 48][j % 2], n_total=[96, 144][j % 2],
                    kernel=["tpcn", "rwm"][j % 2], resample=["syst", "mult"][(j // 2) % 2], clustering=bool((j // 3) % 2), mode="vec",
                    volume_variation=[None, 1.0][(j // 2) % 2])
        tasks.append(("tvf.checks.c10:cell", dict(cfg=cfgp, c=float([1e4, -3e4, 1e5, -2e5, 2500.0, -1000.0, 3e4, -1e5][j % 8]),
                                                   seeds=[ck.subseed("peak", j, r) % 10 ** 6 for r in range(4)]), None))
    for i in range(len(tasks) - npin - n32 - nsup - nweak - npeak - nbig):
        if i % 3 == 1:     # a third of the small cells use an irrational shift as well
            tasks[i][1]["c"] = float(tasks[i][1]["c"] * math.sqrt(2) / 1.4)
    for i, st, val in farm.run(tasks, timeout=900, progress="C10"):
        kw = tasks[i][1]
        if st == "timeout":
            ck.inconc(f"{kw['cfg']}: watchdog")
            continue
        if st != "ok":
            ck.violation("pair-crashed", f"{kw['cfg']}: {st} {str(val)[-300:]}", kw)
            continue
        bad, T, npairs = val
        if kw["cfg"].get("target") == "support" and abs(kw["c"]) >= 600:
            ck.event("pairs on a target with a zero-likelihood region shifted by |c| >= 650", 1)
        if (kw["cfg"].get("tkw") or {}).get("half") == 5.0:
            ck.event("pairs on a sharply peaked likelihood (logL range 1e4..1e6) with |c| from 1e3 to 2e5 (comparable to the range)", 1)
        if (kw["cfg"].get("tkw") or {}).get("sd", 0) >= 100:
            ck.event("pairs on a weakly informative likelihood (logL variation 1e-6..1e-3) with |c| >= 300", 1)
        if kw["cfg"].get("xdtype") is not None:
            ck.event("pairs whose prior transform returns single-precision coordinates", 1)
        if kw["cfg"].get("pin_limit") is not None:
            ck.event("pairs in which the ESS limit of one iteration was injected inside the last 2e-4 below one", int(T > 0))
        ck.case(dict(cfg=kw["cfg"], c=kw["c"]), nontrivial=T > 2)
        ck.event("same-seed (logL, logL+c) pairs compared", npairs)
        for key, what in bad:
            ck.violation(key, what + f"  [c={kw['c']}]", kw)
    ck.require_events("same-seed (logL, logL+c) pairs compared", "pairs in which the ESS limit of one iteration was injected inside the last 2e-4 below one")
    return ck.finish(
        rule="configurations from runs.small_cfg (kernel x resampler x clustering x vec/scalar/blobs x target) x metric mode x shifts in "
             "{+-1e3, +-37.5, 1e-3, -0.731, 512, -999.99}; pairs run under one seed; non-trivial = more than two iterations",
        assumptions=["particles compared with atol 1e-9 (RWM step-size adaptation carries 1e-16 rounding differences), weights/ESS rtol 1e-8, logZ shift 1e-9(1+|c|), discrete structure exactly; a mismatch must reproduce on 2 of 3 further seeds"],
    )

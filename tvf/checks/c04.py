"""C04 - importance weights follow the balance-heuristic mixture formula.

Monitor: generated histories are committed to a real StateManager through its public API;
StateManager.compute_logw_and_logz(beta) is compared against an independent long-double
reference (oracles.mis_ref) plus metamorphic relations, under an FP-exception trap.
"""
from __future__ import annotations

import os

import math

import numpy as np

from tvf import farm
from tvf.env import Check, fmt_exc
from tvf.oracles import mis_ref, LD


def gen_history(rng):
    T = int(rng.integers(1, 13))
    big = rng.random() < 0.04
    if big:                        # long histories / large batches (thresholds, chunking, accumulation)
        T = int(rng.integers(30, 70))
    kind = rng.choice(["small", "peaked", "huge", "mixed", "ones"])
    ns = []
    for t in range(T):
        r = rng.random()
        ns.append(1 if r < 0.15 else int(rng.integers(2, 40)) if r < 0.8 else int(rng.integers(40, 300)))
    if big and rng.random() < 0.5:
        ns[int(rng.integers(T))] = int(rng.integers(8000, 20000))
    if rng.random() < 0.1:
        ns = [ns[0]] * T           # all batches of equal size
    if rng.random() < 0.05:
        ns = [T] * T               # batch size == number of iterations
    if kind == "ones":
        ns = [1] * T
    scale = {"small": 1.0, "peaked": 50.0, "huge": 10 ** rng.uniform(3, 6), "mixed": 10 ** rng.uniform(-1, 4),
             "ones": 10.0}[kind]
    off = rng.choice([0.0, 1.0, -1.0]) * 10 ** rng.uniform(0, 6) if rng.random() < 0.5 else 0.0
    logl = [off + scale * rng.standard_normal(n) - (scale * rng.exponential(1.0, n) if rng.random() < 0.5 else 0)
            for n in ns]
    bmode = rng.choice(["sorted", "any", "warm"])
    if bmode == "sorted":
        betas = np.sort(rng.random(T))
        betas[0] = 0.0
        if rng.random() < 0.5:
            betas[-1] = 1.0
    elif bmode == "warm":
        k = int(rng.integers(1, T + 1))
        betas = np.concatenate([np.zeros(k), np.sort(rng.random(T - k))])
    else:
        betas = rng.random(T)
        if rng.random() < 0.3:
            betas[rng.integers(T)] = 1.0
        if rng.random() < 0.3:
            betas[rng.integers(T)] = 0.0
    zk = rng.choice(["zero", "consistent", "wild"])
    if zk == "zero":
        logz = np.zeros(T)
    elif zk == "consistent":
        logz = betas * off + rng.standard_normal(T)
    else:
        logz = rng.standard_normal(T) * 10 ** rng.uniform(0, 5)
    target = float(rng.choice([0.0, 1.0, rng.random(), betas[rng.integers(T)]]))
    if rng.random() < 0.08:
        # no mixture component of order one for (some of) the samples: every beta_t*logL - logZ_t of a sample lies between the smallest
        # normal and the smallest subnormal double once exponentiated (-745 .. -708), e.g. a history without a prior iteration
        betas = np.sort(rng.uniform(0.5, 1.0, T))
        lvl = rng.uniform(720.0, 760.0)
        logl = [-(lvl / betas[rng.integers(T)]) + rng.uniform(-12, 12, n) for n in ns]
        logz = np.zeros(T) if rng.random() < 0.5 else rng.uniform(-3, 3, T)
        kind, bmode, zk = "underflow-band", "no-prior", "small"
        target = float(rng.choice([1.0, 0.75, betas[rng.integers(T)]]))
    if rng.random() < 0.12:
        # requested temperatures next to, but not at, the end points (a temperature is never "close enough" to 0 or 1)
        eps_t = float(rng.choice([1e-5, 3e-6, 1e-6, 1e-7, 1e-9, 2.0 ** -30, 1e-12, 2.0 ** -52]))
        target = eps_t if rng.random() < 0.35 else 1.0 - eps_t
    # how the numbers are handed to the public API: Python / numpy integers for temperatures that are exactly 0 or 1
    # (a prior batch followed by posterior batches), 0-d arrays, lists, integer logZ.  The stored values are the same reals.
    vtype = "float"
    if rng.random() < 0.12 and T >= 2:
        vtype = str(rng.choice(["int", "npint", "0d", "list", "int-logz"]))
        if vtype in ("int", "npint"):
            k = int(rng.integers(1, T))
            betas = np.concatenate([np.zeros(k), np.ones(T - k)])
            if zk == "consistent":
                logz = betas * off + rng.standard_normal(T)
            target = float(rng.choice([0.0, 1.0, rng.random()]))
        if vtype == "int-logz":
            logz = np.rint(np.clip(logz, -1e6, 1e6))
    return dict(T=T, ns=ns, logl=logl, betas=np.asarray(betas, float), logz=np.asarray(logz, float),
                beta=target, kind=str(kind), bmode=str(bmode), zk=str(zk), vtype=vtype)


def build_state(logl, betas, logz, vtype="float"):
    from tempest.state_manager import StateManager
    sm = StateManager(1)
    for l, b, z in zip(logl, betas, logz):
        ll, bb, zz = np.asarray(l, float), float(b), float(z)
        if vtype == "int":
            bb = int(b)
        elif vtype == "npint":
            bb = np.int64(b)
        elif vtype == "0d":
            bb, zz = np.array(float(b)), np.array(float(z))
        elif vtype == "list":
            ll = [float(v) for v in l]
        elif vtype == "int-logz":
            zz = int(z)
        sm.update_current({"logl": ll, "beta": bb, "logz": zz})
        sm.commit_current_to_history()
    return sm


def check_history(h):
    """returns (violations list of (key, what), stats dict)."""
    bad = []
    sm = build_state(h["logl"], h["betas"], h["logz"], h.get("vtype", "float"))
    scale = max(float(np.max(np.abs(np.concatenate(h["logl"])))), float(np.max(np.abs(h["logz"]))), 1.0)
    tol = 1e-9 * (1.0 + scale)
    fp = []
    vt = h.get("vtype", "float")
    tbq = h["beta"]
    if vt in ("int", "npint") and h["beta"] in (0.0, 1.0):
        tbq = int(h["beta"]) if vt == "int" else np.int64(h["beta"])
    elif vt == "0d":
        tbq = np.array(h["beta"])
    try:
        with np.errstate(over="raise", invalid="raise", divide="raise"):
            lw, lz = sm.compute_logw_and_logz(tbq)
            lwu, lzu = sm.compute_logw_and_logz(tbq, normalize=False)
    except FloatingPointError as e:
        fp.append(str(e))
        with np.errstate(all="ignore"):
            lw, lz = sm.compute_logw_and_logz(h["beta"])
            lwu, lzu = sm.compute_logw_and_logz(h["beta"], normalize=False)
    if fp:
        bad.append(("fp-exception", f"floating point exception inside compute_logw_and_logz: {fp[0]}"))
    # the same request spelled the other ways the signature allows (keywords, positional normalize, defaults for the posterior)
    with np.errstate(all="ignore"):
        alts = [("beta_final=..., normalize=True", sm.compute_logw_and_logz(beta_final=tbq, normalize=True), (lw, lz)),
                ("(beta, False) positionally", sm.compute_logw_and_logz(tbq, False), (lwu, lzu))]
        if h["beta"] == 1.0:
            alts.append(("no arguments (posterior)", sm.compute_logw_and_logz(), (lw, lz)))
            alts.append(("normalize=False only", sm.compute_logw_and_logz(normalize=False), (lwu, lzu)))
    for nm, (a_w, a_z), (r_w, r_z) in alts:
        if not np.array_equal(np.asarray(a_w), np.asarray(r_w), equal_nan=True) or not (a_z == r_z or (np.isnan(a_z) and np.isnan(r_z))):
            bad.append(("call-form-dependent", f"compute_logw_and_logz called with {nm} gives another answer than the same request with (beta) / (beta, normalize=False)"))
    # a second and third request on the SAME manager with other target temperatures, then the first one again
    # (per-history caches must be keyed on everything the result depends on)
    for b2 in (float(h["betas"][0]), 0.5 * (h["beta"] + 1.0)):
        with np.errstate(all="ignore"):
            l2, z2 = sm.compute_logw_and_logz(b2)
        r2u, r2n, r2z, _ = mis_ref(h["logl"], h["betas"], h["logz"], b2)
        if np.all(np.isfinite(l2)) and (float(np.max(np.abs(l2.astype(LD) - r2n))) > tol or abs(float(z2) - float(r2z)) > tol):
            bad.append(("second-request-wrong", f"after a request at beta={h['beta']!r}, the request at beta={b2!r} on the same history is off by "
                        f"{float(np.max(np.abs(l2.astype(LD) - r2n))):.3g} / logz by {abs(float(z2) - float(r2z)):.3g}"))
    # a manager rebuilt from a dictionary whose per-iteration scalars come as numpy arrays (e.g. taken from results()): queries are
    # read-only - the stored evidences and temperatures are what they were, and every repetition of a query gives the same answer
    T = h["T"]
    if T >= 2 and len(bad) == 0:
        from tempest.state_manager import StateManager
        dd = sm.to_dict()
        for kq in ("beta", "logz"):
            dd["_history"][kq] = np.array([float(v_) for v_ in dd["_history"][kq]], dtype=float)
        sm_arr = StateManager.from_dict(dd) if T % 2 else StateManager(1)
        if not T % 2:
            sm_arr.update_from_dict(dd)
        keep_z = np.array(sm_arr.get_history("logz"), dtype=float).copy()
        with np.errstate(all="ignore"):
            ans = [sm_arr.compute_logw_and_logz(h["beta"]) for _ in range(3)]
            ansu = [sm_arr.compute_logw_and_logz(h["beta"], normalize=False) for _ in range(2)]
        if not np.array_equal(np.array(sm_arr.get_history("logz"), dtype=float), keep_z):
            bad.append(("query-mutates-history", "compute_logw_and_logz changed the stored per-iteration evidences of a manager rebuilt from a dictionary with array-valued containers"))
        elif any(not np.array_equal(a_[0], ans[0][0], equal_nan=True) or a_[1] != ans[0][1] for a_ in ans[1:]) or not np.array_equal(ansu[0][0], ansu[1][0], equal_nan=True):
            bad.append(("second-request-wrong", "repeating one request on a manager rebuilt from a dictionary with array-valued containers gives different answers"))
        elif np.all(np.isfinite(lw)) and float(np.max(np.abs(ans[0][0] - lw))) > tol:
            bad.append(("formula-logw-norm", "a manager rebuilt from a dictionary with array-valued containers answers differently from the original manager"))
    # results the caller still holds must not change when the manager answers later requests (output buffers are the caller's)
    held = (lw.copy(), lw, lwu.copy(), lwu)
    with np.errstate(all="ignore"):
        lw_again, lz_again = sm.compute_logw_and_logz(h["beta"])
    if not (np.array_equal(held[0], held[1], equal_nan=True) and np.array_equal(held[2], held[3], equal_nan=True)):
        bad.append(("result-overwritten-by-later-request", "log-weights returned for one temperature changed while the manager answered requests at other "
                    f"temperatures (normalised changed: {not np.array_equal(held[0], held[1], equal_nan=True)}, unnormalised changed: "
                    f"{not np.array_equal(held[2], held[3], equal_nan=True)})"))
    if lw_again.shape == lw.shape and (not np.array_equal(lw_again, lw) or lz_again != lz):
        bad.append(("second-request-wrong", "repeating the first request on the same history gives a different answer"))
    ru, rn, rz, ress = mis_ref(h["logl"], h["betas"], h["logz"], h["beta"])
    N = sum(h["ns"])
    if lw.shape != (N,) or lwu.shape != (N,):
        bad.append(("shape", f"logw shape {lw.shape} for N={N}"))
        return bad, {}
    if not (np.all(np.isfinite(lw)) and np.isfinite(lz) and np.all(np.isfinite(lwu))):
        bad.append(("non-finite", f"non-finite output for finite inputs (scale {scale:.3g})"))
        return bad, {}
    e_un = float(np.max(np.abs(lwu.astype(LD) - ru)))
    e_n = float(np.max(np.abs(lw.astype(LD) - rn)))
    e_z = float(abs(LD(lz) - rz))
    e_zu = float(abs(LD(lzu) - rz))
    if e_un > tol:
        bad.append(("formula-logw", f"unnormalised log-weights differ from balance-heuristic reference by {e_un:.3g} (tol {tol:.3g})"))
    if e_n > tol:
        bad.append(("formula-logw-norm", f"normalised log-weights differ from reference by {e_n:.3g} (tol {tol:.3g})"))
    if e_z > tol or e_zu > tol:
        bad.append(("formula-logz", f"logz differs from log-mean-unnormalised-weight by {max(e_z, e_zu):.3g} (tol {tol:.3g})"))
    s = float(np.sum(np.exp(lw.astype(LD))))
    # each log-weight carries rounding error ~eps*scale, so the sum of exp() does too
    if abs(s - 1.0) > 1e-9 + 256 * np.finfo(float).eps * scale:
        bad.append(("sum-to-one", f"normalised weights sum to {s!r} (scale {scale:.3g})"))
    # metamorphic 1: order of iterations
    T = h["T"]
    if T > 1:
        perm = np.random.default_rng(int(abs(h["beta"]) * 1e6) + T).permutation(T)
        sm2 = build_state([h["logl"][i] for i in perm], h["betas"][perm], h["logz"][perm], vt if vt != "int-logz" else "float")
        lw2, lz2 = sm2.compute_logw_and_logz(h["beta"])
        # map rows back
        starts = np.concatenate([[0], np.cumsum(h["ns"])])
        rows = np.concatenate([np.arange(starts[i], starts[i + 1]) for i in perm])
        d = float(np.max(np.abs(lw2 - lw[rows])))
        if d > tol or abs(lz2 - lz) > tol:
            bad.append(("order-dependence", f"permuting iterations changes weights by {d:.3g} / logz by {abs(lz2 - lz):.3g}"))
    # metamorphic 2: likelihood rescaling
    c = float(np.random.default_rng(T + N).uniform(-1e3, 1e3))
    sm3 = build_state([l + c for l in h["logl"]], h["betas"], h["logz"] + h["betas"] * c)
    lw3, lz3 = sm3.compute_logw_and_logz(h["beta"])
    tol3 = 1e-9 * (1.0 + scale + abs(c))
    d3 = float(np.max(np.abs(lw3 - lw)))
    if d3 > tol3 or abs((lz3 - lz) - h["beta"] * c) > tol3:
        bad.append(("shift", f"logL+c: weights move by {d3:.3g}, logz moves by {lz3 - lz:.6g} instead of {h['beta'] * c:.6g}"))
    # the same manager object after its history was REPLACED (update_from_dict / load_state, as a checkpoint load does):
    # another history with the same number of iterations, other batch sizes and values
    if T <= 12 and N < 5000:
        r2 = np.random.default_rng(N * 31 + T)
        # donor batch sizes: the same as before (same number of iterations AND of stored samples), reversed, or unrelated
        rr = r2.random()
        ns2 = list(h["ns"]) if rr < 0.35 else list(reversed(h["ns"])) if rr < 0.65 else [int(r2.integers(1, 40)) for _ in range(T)]
        logl2 = [r2.standard_normal(n) * 3.0 - 1.0 for n in ns2]
        betas2 = np.sort(r2.random(T))
        logz2 = r2.standard_normal(T)
        donor = build_state(logl2, betas2, logz2)
        if r2.random() < 0.5:
            sm.update_from_dict(donor.to_dict())
        else:
            import contextlib, io, tempfile
            from tvf.env import OUT
            (OUT / "tmp").mkdir(parents=True, exist_ok=True)
            with tempfile.TemporaryDirectory(dir=str(OUT / "tmp")) as td, contextlib.redirect_stdout(io.StringIO()):
                donor.save_state(os.path.join(td, "d.pkl"))
                sm.load_state(os.path.join(td, "d.pkl"))
        # the request after the replacement repeats an earlier request (same temperature, same normalisation) or is a new one
        b3 = float(h["beta"]) if r2.random() < 0.5 else float(r2.random())
        try:
            with np.errstate(all="ignore"):
                lw3, lz3 = sm.compute_logw_and_logz(b3)
            _, r3n, r3z, _ = mis_ref(logl2, betas2, logz2, b3)
            if lw3.shape != (sum(ns2),):
                bad.append(("stale-after-history-replaced", f"after the manager's history was replaced (T={T} iterations, sizes {ns2[:6]}) it returns {lw3.shape[0]} "
                            f"log-weights for {sum(ns2)} stored samples"))
            elif float(np.max(np.abs(lw3.astype(LD) - r3n))) > 1e-8 or abs(float(lz3) - float(r3z)) > 1e-8:
                bad.append(("stale-after-history-replaced", f"after the manager's history was replaced by another one with the same number of iterations the weights are "
                            f"off by {float(np.max(np.abs(lw3.astype(LD) - r3n))):.3g} (logz by {abs(float(lz3) - float(r3z)):.3g})"))
        except Exception as e:
            bad.append(("stale-after-history-replaced", f"after the manager's history was replaced: {type(e).__name__}: {e}"))
    return bad, dict(err=max(e_un, e_n, e_z) / tol, T=T, N=N)


def _batch(seed, start, count, pid="C04"):
    os.environ["VERIF_SEED"] = str(seed)
    ck = Check(pid)
    out = []
    for i in range(start, start + count):
        rng = ck.rng("hist", i)
        h = gen_history(rng)
        try:
            bad, st = check_history(h)
        except Exception:
            bad, st = [("exception", fmt_exc())], {}
        out.append((i, dict(T=h["T"], ns=h["ns"][:6], kind=h["kind"], bmode=h["bmode"], zk=h["zk"], beta=h["beta"], vtype=h.get("vtype", "float")),
                    bad, st))
    return out


def real_histories(ck, n_runs):
    """History prefixes recorded from real sampler runs (thorough + a few in quick)."""
    from tvf import runs
    tasks = [("tvf.runs:run_and_dump_history", dict(cfg=runs.small_cfg(i)), ck.subseed("real", i)) for i in range(n_runs)]
    res = farm.run(tasks, timeout=300)
    hs = []
    for i, st, val in res:
        if st == "ok":
            hs.append(val)
        else:
            ck.inconc(f"real run {i}: {st} {str(val)[:200]}")
    return hs


def giant_case(ck, T, N, stream):
    """A history whose samples-by-iterations array exceeds 2**24 elements, compared with a blockwise long-double reference."""
    rng = ck.rng("giant", stream)
    ns = [N // T + (1 if t < N % T else 0) for t in range(T)]
    betas = np.sort(rng.random(T))
    kwarm = 1 + int(stream) % 4 * 3          # 1, 4, 7 or 10 prior-phase batches ...
    betas[:kwarm] = 0.0
    betas[-1] = 1.0
    logl = [-(10 ** rng.uniform(0, 2)) * rng.random(n) ** 2 for n in ns]
    logz = -betas * 3.0 + 0.1 * rng.standard_normal(T)
    logz[:kwarm] = math.log(0.25) + 0.01 * rng.standard_normal(kwarm)      # ... whose recorded evidence is log f, f = 1/4, not 0
    sm = build_state(logl, betas, logz)
    bad = []
    for beta in (0.42, 1.0):
        lw, lz = sm.compute_logw_and_logz(beta)
        allv = np.concatenate(logl)
        lns = np.log(np.asarray(ns, dtype=LD)) - np.log(LD(sum(ns)))
        ref = np.empty(len(allv), dtype=LD)
        for a in range(0, len(allv), 65536):
            blk = allv[a:a + 65536].astype(LD)
            comp = blk[:, None] * betas.astype(LD)[None, :] - logz.astype(LD)[None, :] + lns[None, :]
            m = comp.max(axis=1)
            ref[a:a + 65536] = LD(beta) * blk - (m + np.log(np.sum(np.exp(comp - m[:, None]), axis=1)))
        mm = ref.max()
        tot = mm + np.log(np.sum(np.exp(ref - mm)))
        refz = float(tot - np.log(LD(len(allv))))
        err = float(np.max(np.abs(lw.astype(LD) - (ref - tot))))
        if err > 1e-8 or abs(float(lz) - refz) > 1e-8:
            j = int(np.argmax(np.abs(lw.astype(LD) - (ref - tot))))
            bad.append(("formula-logw-large-history", f"T={T}, N={sum(ns)} ({T * sum(ns)} mixture elements), beta={beta}: log-weights differ from the reference by "
                        f"{err:.3g} (worst at sample {j} of {len(allv)}), logz by {abs(float(lz) - refz):.3g}"))
    return bad


def run():
    ck = Check("C04")
    n = ck.pick(3000, 100000)
    per = ck.pick(200, 1000)
    tasks = [("tvf.checks.c04:_batch", dict(seed=ck.seed, start=s, count=min(per, n - s)), None)
             for s in range(0, n, per)]
    worst = 0.0
    for i, st, val in farm.run(tasks, timeout=600, progress="C04"):
        if st != "ok":
            ck.inconc(f"batch {i}: {st} {str(val)[:300]}")
            continue
        for idx, desc, bad, stt in val:
            ck.case(desc, nontrivial=desc["T"] > 1)
            ck.event("compute_logw_and_logz compared with reference")
            if desc.get("vtype", "float") != "float":
                ck.event("histories handed over as Python/numpy integers, 0-d arrays, lists or integer logZ")
            worst = max(worst, stt.get("err", 0.0))
            for key, what in bad:
                ck.violation(key, what, dict(stream=["hist", idx], case=desc))
    # histories recorded from real runs
    from tvf import runs as R
    hs = real_histories(ck, ck.pick(4, 48))
    for h in hs:
        T = len(h["betas"])
        for k in range(1, T + 1):
            for beta in (1.0, float(h["betas"][k - 1])):
                hh = dict(T=k, ns=[len(l) for l in h["logl"][:k]], logl=h["logl"][:k],
                          betas=np.asarray(h["betas"][:k]), logz=np.asarray(h["logz"][:k]), beta=beta)
                try:
                    bad, stt = check_history(hh)
                except Exception:
                    bad, stt = [("exception", fmt_exc())], {}
                ck.case(dict(real_run=h["cfg"], prefix=k, beta=beta), nontrivial=k > 1)
                ck.event("real-run history prefix compared with reference")
                for key, what in bad:
                    ck.violation(key, what, dict(real_run=h["cfg"], prefix=k, beta=beta))
    if not ck.quick:
        from tvf.contracts_run import run_suite_with_contracts
        run_suite_with_contracts(ck, ['compute_logw_and_logz'])
    ck.tables["worst_error_over_tolerance"] = worst
    for gi, (T, N) in enumerate(ck.pick([(40, 450_001)], [(40, 450_001), (48, 359_823), (16, 1_200_007), (100, 200_003)])):
        try:
            gbad = giant_case(ck, T, N, gi)
        except MemoryError:
            ck.note("giant history skipped: MemoryError")
            continue
        ck.case(dict(giant=dict(T=T, N=N, elements=T * N)))
        ck.event("histories above 2**24 mixture elements compared with the blockwise reference")
        for key, what in gbad:
            ck.violation(key, what, dict(giant=dict(T=T, N=N)))
    ck.require_events("compute_logw_and_logz compared with reference", "real-run history prefix compared with reference")
    return ck.finish(
        rule="histories generated from VERIF_SEED (T in 1..12, unequal n_t incl. 1, betas sorted/any order/"
             "warm-up zeros, logz zero/consistent/wild, logL scale up to 1e6 with offsets) committed through the "
             "public StateManager API, plus every prefix of histories recorded from real Sampler runs; "
             "non-trivial = at least two iterations (mixture has >1 component); distinct by descriptor hash",
        assumptions=["long-double reference (numpy longdouble, 64-bit mantissa) is the oracle; tolerance 1e-9*(1+max|logL|+max|logZ_t|)"],
    )


def replay(rec):
    os.environ["VERIF_SEED"] = str(rec["seed"])
    ck = Check("C04")
    w = rec["witness"]
    if "stream" in w:
        h = gen_history(ck.rng(*w["stream"]))
        bad, st = check_history(h)
        print(bad or "held")
        return 1 if bad else 0
    return 2

"""C03 - mutation kernels leave the tempered target invariant (detailed balance).

M3a  conformance under injected randomness (deterministic): the RNG interposer serves chosen
     gamma / normal / uniform draws to the real TPCNRunner / RWMRunner and records the
     arguments; the oracle is the tpCN / RWM specification (proposal map, exact fold,
     Student-t density ratio against scipy.stats.multivariate_t, accept iff u < alpha probed
     at alpha(1 +- 1e-9), out-of-cube proposals rejected, exactly one normal draw per proposal).
M3b  distributional invariance (Rule P): exact draws from pi_beta -> one sweep of the real
     kernel with fixed step size -> paired differences of test functions have mean zero.
"""
from __future__ import annotations

import math
import os

import numpy as np
from scipy import stats as sst

from tvf import attach, farm
from tvf.env import Check, fmt_exc
from tvf.oracles import fold_periodic_exact, fold_reflect_exact, frac_to_float
from tvf.stats import Z_P, rule_p
from tvf.tap import Tap, TapCap


# ----------------------------------------------------------------------------- common builders
def spd(rng, d, kind):
    if kind == "diag":
        return np.diag(10 ** rng.uniform(-3.5, -1.5, d))
    A = rng.standard_normal((d, d))
    C = A @ A.T + 0.05 * np.eye(d)
    sd = 10 ** rng.uniform(-2, -0.7, d)
    Dm = np.sqrt(np.diag(C))
    C = C / np.outer(Dm, Dm)
    if kind == "rho":
        r = 0.9
        C = np.full((d, d), r) + (1 - r) * np.eye(d)
    if kind == "illcond" and d > 1:
        # principal standard deviations spanning 1e4..1e5 (condition number 1e8..1e10), randomly rotated
        Q, _ = np.linalg.qr(rng.standard_normal((d, d)))
        sds = np.geomspace(10 ** rng.uniform(-1.5, -0.8), 10 ** rng.uniform(-6.5, -5.0), d)
        M = Q @ np.diag(sds ** 2) @ Q.T
        return 0.5 * (M + M.T)
    return C * np.outer(sd, sd)


def mode_stats(means, covs, dofs):
    from tempest.modes import ModeStatistics
    return ModeStatistics(np.asarray(means), np.asarray(covs), np.asarray(dofs, float))


def make_runner(kernel, u, logl_fn, assignments, beta, ms, periodic, reflective, sigma):
    from tempest.mcmc import TPCNRunner, RWMRunner
    d = u.shape[1]
    x = u.copy()
    logl = logl_fn(x)
    cls = TPCNRunner if kernel == "tpcn" else RWMRunner
    def point_transform(q):
        # the identity, written for ONE point parameter by parameter (the single-point contract of prior_transform)
        q = np.asarray(q)
        out = np.zeros_like(q)
        for i in range(d):
            out[i] = q[i]
        return out
    r = cls(u, x, logl, None, assignments, beta, ms, lambda xx: (logl_fn(xx), None), point_transform, None, 1, 1.0 / d,
            None if periodic is None else np.asarray(periodic), None if reflective is None else np.asarray(reflective), False)
    r.sigmas[:] = sigma
    return r


def fold_exact(v, periodic, reflective):
    out = np.array(v, float)
    for i in (periodic or []):
        out[i] = frac_to_float(fold_periodic_exact(float(v[i])))
    for i in (reflective or []):
        out[i] = frac_to_float(fold_reflect_exact(float(v[i])))
    return out


# ----------------------------------------------------------------------------- M3a
def conformance_case(seed):
    rng = np.random.default_rng(seed)
    kernel = str(rng.choice(["tpcn", "rwm"]))
    d = int(rng.integers(1, 6))
    K = int(rng.integers(1, 4))
    n = int(rng.integers(3, 9))
    means = rng.uniform(0.2, 0.8, (K, d))
    covs = np.array([spd(rng, d, str(rng.choice(["diag", "full", "rho", "illcond"], p=[0.3, 0.3, 0.25, 0.15]))) for _ in range(K)])
    dofs = rng.choice([0.7, 2.0, 5.0, 30.0, 1e6], K)
    ms = mode_stats(means, covs, dofs)
    sigma = float(rng.uniform(0.05, 0.95)) if kernel == "tpcn" else float(rng.uniform(0.1, 2.5))
    beta = float(rng.choice([1.0, rng.uniform(0.01, 1.0)]))
    bk = str(rng.choice(["hard", "periodic", "reflective", "mixed"]))
    idx = list(rng.permutation(d))
    periodic = reflective = None
    if bk == "periodic":
        periodic = sorted(int(i) for i in idx[: max(1, d // 2)])
    elif bk == "reflective":
        reflective = sorted(int(i) for i in idx[: max(1, d // 2)])
    elif bk == "mixed" and d >= 2:
        periodic, reflective = [int(idx[0])], [int(idx[1])]
    else:
        bk = "hard"
    u = rng.uniform(0.02, 0.98, (n, d))
    ass = rng.integers(0, K, n)
    c0 = rng.uniform(0.3, 0.7, d)
    lam = 10 ** rng.uniform(0, 2.5)
    narrow = None
    if rng.random() < 0.15:
        # posterior far narrower than the prior: all scale matrices shrunk by s^2 (s down to 1e-8), walkers a few scale
        # lengths from their mode, likelihood curvature ~1/s^2 so that acceptance stays non-trivial
        narrow = float(10 ** rng.uniform(-8, -3.5))
        covs = covs / np.max(np.sqrt(np.einsum("kii->ki", covs)), axis=1)[:, None, None] ** 2 * narrow ** 2
        ms = mode_stats(means, covs, dofs)
        Ln = np.linalg.cholesky(covs)
        u = np.array([means[ass[k]] + 1.5 * Ln[ass[k]] @ rng.standard_normal(d) for k in range(n)])
        c0 = means[0]
        lam = 0.3 / narrow ** 2
    logl_fn = lambda x: -lam * np.sum((np.atleast_2d(x) - c0) ** 2, axis=1)
    cutinfo = None
    if narrow is None and rng.random() < 0.25:
        # likelihood that is exactly zero beyond a hyperplane (all walkers start on the supported side): a proposal into the
        # zero region has target density 0 and must be rejected whatever the proposal-density ratio says
        a_dir = rng.standard_normal(d)
        a_dir /= np.linalg.norm(a_dir)
        c_cut = float(np.max(u @ a_dir) + rng.uniform(0.005, 0.2))
        base_fn = logl_fn
        logl_fn = lambda x, base_fn=base_fn: np.where(np.atleast_2d(x) @ a_dir < c_cut, base_fn(x), -np.inf)
        cutinfo = (a_dir, c_cut)
    desc = dict(kernel=kernel, d=d, K=K, n=n, bk=bk, sigma=round(sigma, 4), beta=round(beta, 4), dofs=[float(v) for v in dofs])
    if narrow is not None:
        desc["narrow"] = narrow
    if cutinfo is not None:
        desc["zero_region"] = True
    L = np.linalg.cholesky(covs)
    Sinv = np.linalg.inv(covs)
    r = make_runner(kernel, u, logl_fn, ass, beta, ms, periodic, reflective, sigma)
    tot = dict(redraws=0, decisive=0, outside=0, sweeps=0, zero=0)
    # several consecutive sweeps on the SAME runner object (each run() call performs exactly one sweep because
    # n_max = 1/d): state carried from sweep to sweep (adapted step sizes, caches) is part of what is judged
    for sw in range(3):
        bad, st = _one_sweep(rng, r, kernel, d, n, means, covs, dofs, L, Sinv, ass, beta, bk, periodic, reflective, logl_fn, sw, cutinfo)
        for k in ("decisive", "outside", "zero"):
            tot[k] += st.get(k, 0)
        tot["sweeps"] += 1
        if st.get("redraws"):
            tot["redraws"] = st["redraws"]
        if bad:
            return desc, [(key, f"sweep {sw + 1}: {what}") for key, what in bad], tot
    return desc, [], tot


def _one_sweep(rng, r, kernel, d, n, means, covs, dofs, L, Sinv, ass, beta, bk, periodic, reflective, logl_fn, sw, cutinfo=None):
    u = r.u.copy()
    ll_cur = r.logl.copy()
    sig = np.asarray(r.sigmas, float)[ass].copy()          # step size each walker will use in this sweep
    g = rng.gamma(2.0, 1.0, n) * rng.choice([0.2, 1.0, 5.0], n)
    z = rng.standard_normal((n, d)) * rng.choice([0.3, 1.0, 4.0, 30.0], (n, 1))
    bad = []
    # ---- specification
    props = np.empty((n, d))
    inside = np.ones(n, bool)
    gam_args = []
    for k in range(n):
        a = ass[k]
        if kernel == "tpcn":
            diff = u[k] - means[a]
            delta = float(diff @ Sinv[a] @ diff)
            gam_args.append(((d + dofs[a]) / 2.0, 2.0 / (dofs[a] + delta)))
            s = 1.0 / g[k]
            raw = means[a] + math.sqrt(max(1 - sig[k] ** 2, 0.0)) * diff + sig[k] * math.sqrt(s) * (L[a] @ z[k])
        else:
            raw = u[k] + sig[k] * (L[a] @ z[k])
        p = fold_exact(raw, periodic, reflective)
        special = set(periodic or []) | set(reflective or [])
        strict = [i for i in range(d) if i not in special]
        inside[k] = all(0.0 <= p[i] <= 1.0 for i in strict)
        props[k] = p
    ll0 = logl_fn(u)
    if np.max(np.abs(ll0 - ll_cur)) > 1e-12 * (1 + np.max(np.abs(ll0))):
        return [("record-split", "the runner's logl is not the likelihood at the runner's u before the sweep")], {}
    ll1 = logl_fn(np.where(inside[:, None], props, u))
    conds = np.array([np.linalg.cond(c) for c in covs])
    if kernel == "tpcn":
        def tfac(k):
            a = ass[k]
            if conds[a] < 1e6:
                return (sst.multivariate_t.logpdf(u[k], loc=means[a], shape=covs[a], df=dofs[a])
                        - sst.multivariate_t.logpdf(props[k], loc=means[a], shape=covs[a], df=dofs[a]))
            from tvf.oracles import mvt_logpdf_unnorm
            return float(mvt_logpdf_unnorm(u[k], means[a], Sinv[a], dofs[a], d) - mvt_logpdf_unnorm(props[k], means[a], Sinv[a], dofs[a], d))
        fac = np.array([tfac(k) if inside[k] else 0.0 for k in range(n)])
    else:
        fac = np.zeros(n)
    with np.errstate(over="ignore"):
        alpha = np.minimum(1.0, np.exp(beta * (ll1 - ll0) + fac))
    alpha = np.where(inside, alpha, 0.0)
    # proposals into the zero-likelihood region (alpha = 0 exactly); those within rounding of the hyperplane are not judged
    zero = inside & np.isneginf(ll1)
    nearcut = np.zeros(n, bool)
    if cutinfo is not None:
        nearcut = np.abs(props @ cutinfo[0] - cutinfo[1]) < 1e-9
        zero &= ~nearcut
    want = rng.random(n) < 0.5
    # Rounding budget of log(alpha), per walker.  (i) 1e-6 floor: with nu=1e6 the kernel's own 0.5*(nu+d)*log(1+q/nu) carries
    # ~1e-10 of cancellation noise, and a margin of 1e-9 produced one false alarm in 3e5 probes (alpha=3e-112) on the unchanged
    # tree.  (ii) the double-precision quadratic form with an ill-conditioned inverse loses cond*eps of q.  (iii) the proposal
    # itself is stored with an absolute rounding error of eps*|u|; measured in scale lengths that is eps/sd_min, which matters
    # for posteriors 1e-8 of the prior wide (q and logL both move by their gradient times that error).
    eps = np.finfo(float).eps
    sdmin = np.sqrt(np.array([np.linalg.eigvalsh(c)[0] for c in covs]).clip(1e-300))
    q0 = np.einsum("ij,ijk,ik->i", u - means[ass], Sinv[ass], u - means[ass])
    q1 = np.einsum("ij,ijk,ik->i", props - means[ass], Sinv[ass], props - means[ass])
    gll = np.zeros(n)
    for k in range(n):
        hstep = 1e-3 * sdmin[ass[k]]
        with np.errstate(invalid="ignore"):
            gll[k] = max(abs(float(logl_fn(props[k] + hstep * e)[0] - logl_fn(props[k] - hstep * e)[0])) / (2 * hstep) for e in np.eye(d))
    gll = np.where(np.isfinite(gll), gll, np.inf)          # at the edge of a zero-likelihood region: not decisive
    budget = (1e-6 + 16 * eps * conds[ass] * (1 + np.abs(q0) + np.abs(q1)) * (kernel == "tpcn")
              + 8 * eps * (1 + np.sqrt(np.abs(q0)) + np.sqrt(np.abs(q1))) / sdmin[ass] * (kernel == "tpcn") + 8 * eps * gll * d)
    urand = np.where(want, alpha * (1 - np.minimum(budget, 0.5)), np.minimum(alpha * (1 + budget) + 1e-300, 1.0))
    exp_acc = inside & (urand < alpha)
    with np.errstate(invalid="ignore"):
        budget = np.where(np.isfinite(budget), budget, 1.0)
        urand = np.where(np.isfinite(urand), urand, 0.5)
    decisive = inside & (alpha > 1e-200) & (alpha < 1 - budget) & (budget < 1e-2) & ~nearcut
    # ---- real kernel under injected randomness
    seen_fac = []
    with attach.Hooks() as hk:
        hk.wrap(type(r), "_compute_acceptance_factor", after=lambda ctx, res, *a, **k: seen_fac.append(np.array(res, float)))
        with Tap(log=True, cap=50 * n + 50) as tap:
            if kernel == "tpcn":
                tap.serve("gamma", list(g))
            tap.serve("randn", [z[k].copy() for k in range(n)])
            tap.serve("rand", [urand.copy()])
            try:
                out = r.run()
            except TapCap:
                return [("redraw-loop", "proposal loop consumed more than 50 normal draws per walker (redraw until inside)")], dict(redraws=-1)
    n_randn = tap.counts["randn"]
    n_gamma = tap.counts["gamma"]
    extra = n_randn - n
    if extra > 0:
        bad.append(("redraw-until-inside", f"{n_randn} normal draws for {n} proposals: {extra} out-of-cube proposals were re-drawn instead of rejected "
                    f"(truncated, uncorrected proposal law)"))
        return bad, dict(redraws=extra, decisive=int(decisive.sum()))
    if extra < 0 or tap.counts["rand"] != 1:
        bad.append(("draw-count", f"{n_randn} normal draws and {tap.counts['rand']} uniform vectors for {n} proposals in one sweep"))
        return bad, {}
    if kernel == "tpcn":
        if n_gamma != n:
            bad.append(("gamma-count", f"{n_gamma} gamma draws for {n} proposals"))
        got = [(e[3].get("shape", e[2][0] if e[2] else None), e[3].get("scale", e[2][1] if len(e[2]) > 1 else None)) for e in tap.log if e[0] == "gamma"]
        for k, (gs, ge) in enumerate(zip(got, gam_args)):
            if abs(gs[0] - ge[0]) > 1e-9 * ge[0] or abs(gs[1] - ge[1]) > 1e-9 * ge[1]:
                bad.append(("gamma-parameters", f"walker {k}: gamma(shape={gs[0]!r}, scale={gs[1]!r}) but the tpCN law needs shape=(d+nu)/2={ge[0]!r}, "
                            f"scale=2/(nu+delta(current state))={ge[1]!r}"))
                break
    u_new, x_new, l_new = out[0], out[1], out[2]
    got_acc = np.any(u_new != u, axis=1) | (l_new != ll0)
    for k in range(n):
        if exp_acc[k] and got_acc[k]:
            # tolerance relative to the length of the step itself (a 1e-7 perturbation of a 1e-7-wide proposal is a defect)
            step = float(np.max(np.abs(sig[k] * (L[ass[k]] @ z[k])))) * (math.sqrt(1.0 / g[k]) if kernel == "tpcn" else 1.0)
            if np.max(np.abs(u_new[k] - props[k])) > min(1e-9, 1e-13 + 1e-7 * step):
                bad.append(("proposal-map", f"walker {k}: accepted proposal {u_new[k]} differs from the {kernel} map {props[k]} (boundary {bk}, step size {sig[k]:.4g})"))
                break
    if seen_fac:
        f = seen_fac[0]
        m = inside & np.isfinite(fac)
        ftol = 1e-8 * (1 + np.abs(fac)) * np.maximum(1.0, conds[ass] * 1e-8) + budget     # Mahalanobis distances lose cond*eps
        if m.any() and np.any(np.abs(f[m] - fac[m]) > ftol[m]):
            j = int(np.argmax(np.where(m, np.abs(f - fac), 0)))
            bad.append(("acceptance-factor", f"walker {j}: acceptance factor {f[j]!r} but log t(u) - log t(u') = {fac[j]!r}"))
    elif kernel == "tpcn":
        bad.append(("harness", "acceptance factor hook not reached"))
    wrong = np.where((got_acc != exp_acc) & (decisive | ~inside | zero))[0]
    if len(wrong) and not bad:
        k = int(wrong[0])
        bad.append(("accept-rule", f"walker {k}: alpha={alpha[k]!r}, uniform={urand[k]!r}, inside={bool(inside[k])}: expected "
                    f"{'accept' if exp_acc[k] else 'reject'}, kernel did {'accept' if got_acc[k] else 'reject'} (beta={beta}, boundary {bk})"))
    if np.any((u_new < 0) | (u_new > 1)):
        bad.append(("left-cube", "a walker left the unit cube"))
    if np.max(np.abs(x_new - u_new)) > 0 or np.max(np.abs(l_new - logl_fn(u_new))) > 1e-12 * (1 + np.max(np.abs(l_new))):
        bad.append(("record-split", "x / logl not updated together with u"))
    return bad, dict(redraws=0, decisive=int(decisive.sum()), outside=int((~inside).sum()), zero=int(zero.sum()))


def _conf_batch(seeds):
    res = []
    for sd in seeds:
        try:
            desc, bad, st = conformance_case(sd)
        except Exception:
            desc, bad, st = dict(seed=sd), [("exception", fmt_exc()[-600:])], {}
        res.append((sd, desc, bad, st))
    return res


# ----------------------------------------------------------------------------- M3b
def exact_samples(rng, tgt, W, d, beta):
    """Exact draws from pi_beta on the unit cube + vectorised logL."""
    if tgt == "exp":        # product of exponentials abutting u=0
        lam = np.array([8.0, 3.0, 5.0, 2.0][:d])
        r = beta * lam
        q = rng.random((W, d))
        u = -np.log1p(-q * (1 - np.exp(-r))) / r
        return u, (lambda x: -np.sum(lam * np.atleast_2d(x), axis=1)), lam
    if tgt == "tgauss":     # independent Gaussians truncated by the cube (hits both faces)
        m = np.array([0.1, 0.8, 0.5, 0.3][:d])
        s0 = np.array([0.2, 0.3, 0.25, 0.4][:d])
        s = s0 / math.sqrt(beta)
        a, b = (0 - m) / s, (1 - m) / s
        u = sst.truncnorm.ppf(rng.random((W, d)), a, b, loc=m, scale=s)
        return u, (lambda x: -0.5 * np.sum(((np.atleast_2d(x) - m) / s0) ** 2, axis=1)), (m, s0)
    if tgt == "vm":         # von Mises on coordinate 0 (periodic) x truncated Gaussian
        kap = 2.0
        th = sst.vonmises.rvs(beta * kap, loc=0.0, size=W, random_state=rng)
        u0 = ((th / (2 * math.pi)) + 0.3) % 1.0
        m, s0 = 0.5, 0.2
        s = s0 / math.sqrt(beta)
        cols = [u0]
        for j in range(1, d):
            cols.append(sst.truncnorm.ppf(rng.random(W), (0 - m) / s, (1 - m) / s, loc=m, scale=s))
        u = np.stack(cols, axis=1)
        return u, (lambda x: kap * np.cos(2 * math.pi * (np.atleast_2d(x)[:, 0] - 0.3)) - 0.5 * np.sum(((np.atleast_2d(x)[:, 1:] - m) / s0) ** 2, axis=1)), None
    if tgt == "interior":   # correlated Gaussian far from the faces
        rho = 0.8
        C = (np.full((d, d), rho) + (1 - rho) * np.eye(d)) * 0.03 ** 2 / beta
        u = 0.5 + rng.standard_normal((W, d)) @ np.linalg.cholesky(C).T
        Ci = np.linalg.inv(C * beta)
        return u, (lambda x: -0.5 * np.einsum("ni,ij,nj->n", np.atleast_2d(x) - 0.5, Ci, np.atleast_2d(x) - 0.5)), None
    raise ValueError(tgt)


def test_functions(u):
    d = u.shape[1]
    fs = {}
    for i in range(min(d, 2)):
        fs[f"u{i}"] = u[:, i]
        fs[f"u{i}^2"] = u[:, i] ** 2
        fs[f"1[u{i}<0.1]"] = (u[:, i] < 0.1).astype(float)
        fs[f"1[u{i}<0.5]"] = (u[:, i] < 0.5).astype(float)
        fs[f"cos2pi u{i}"] = np.cos(2 * math.pi * u[:, i])
        fs[f"sin2pi u{i}"] = np.sin(2 * math.pi * u[:, i])
    if d > 1:
        fs["u0*u1"] = u[:, 0] * u[:, 1]
    return fs


def cell_key(cell):
    """Mechanism key of a cell (kernel + boundary kind + covariance structure)."""
    bk = cell["bk"]
    has_per = bk in ("periodic", "mixed")
    has_ref = bk in ("reflective", "mixed", "reflective-all")
    if cell["kernel"] == "tpcn":
        return "tpcn+periodic" if has_per else "tpcn+reflective" if has_ref else "tpcn+hard"
    if has_ref and cell["cov"] != "diag":
        return "rwm+reflective+correlated"
    return "rwm+" + ("hard" if bk == "hard" else "folded+" + ("diagonal" if cell["cov"] == "diag" else "correlated-periodic-only"))


def invariance_cell(cell, W, seed, through_parallel=False):
    rng = np.random.default_rng(seed)
    d = cell["d"]
    u, logl_fn, _ = exact_samples(rng, cell["tgt"], W, d, cell["beta"])
    K = cell["K"]
    # proposal statistics: roughly matched to the target, deliberately imperfect
    mu0, sd0 = u.mean(0), u.std(0)
    means = np.array([mu0 + (0.3 * sd0 * (k - (K - 1) / 2)) for k in range(K)])
    base = np.diag(sd0 ** 2)
    if cell["cov"] == "rho":
        r = 0.9
        base = (np.full((d, d), r) + (1 - r) * np.eye(d)) * np.outer(sd0, sd0)
    covs = np.array([base * (1.0 + 0.5 * k) for k in range(K)])
    ms = mode_stats(means, covs, np.full(K, cell["nu"]))
    ass = rng.integers(0, K, W)
    periodic = reflective = None
    if cell["bk"] == "periodic":
        periodic = [0]
    elif cell["bk"] == "reflective":
        reflective = [0]
    elif cell["bk"] == "mixed":
        periodic, reflective = [0], [1]
    elif cell["bk"] == "reflective-all":
        reflective = list(range(d))
    np.random.seed(seed % (2 ** 31))
    if through_parallel:
        from tempest.mcmc import parallel_mcmc
        x = u.copy()
        out = parallel_mcmc(u, x, logl_fn(x), None, ass, cell["beta"], ms, lambda xx: (logl_fn(xx), None), lambda q: q.copy(), None,
                            1, 2, cell["kernel"], None if periodic is None else np.asarray(periodic), None if reflective is None else np.asarray(reflective), False)
    else:
        r = make_runner(cell["kernel"], u, logl_fn, ass, cell["beta"], ms, periodic, reflective, cell["sigma"])
        out = r.run()
    u1 = out[0]
    f0, f1 = test_functions(u), test_functions(u1)
    zs = {k: rule_p(f1[k] - f0[k]) for k in f0}
    moved = float(np.mean(np.any(u1 != u, axis=1)))
    return zs, moved


def pipeline_cell(cell, W, seed):
    """M3c: as M3b, but cluster labels and mode statistics come from the library's own pipeline pieces
    (HierarchicalGaussianMixture.fit/predict on the particles, ModeStatistics.from_particles), i.e. the
    assignment of a walker is a function of its position, as in Resampler.run."""
    from tempest.cluster import HierarchicalGaussianMixture
    from tempest.modes import ModeStatistics
    rng = np.random.default_rng(seed)
    d = cell["d"]
    u, logl_fn, _ = exact_samples(rng, cell["tgt"], W, d, cell["beta"])
    np.random.seed(seed % (2 ** 31))
    sub = u[: min(W, 4000)]
    cl = HierarchicalGaussianMixture(n_init=1, max_iterations=cell.get("cap", 3) - 1, min_points=4 * d, threshold_modifier=cell.get("thr", 1.0),
                                     covariance_type="full", normalize=True)
    cl.fit(sub, np.ones(len(sub)) / len(sub))
    K = int(cl.n_clusters_)
    ass = np.asarray(cl.predict(u))
    try:
        ms = ModeStatistics.from_particles(sub, np.ones(len(sub)) / len(sub), np.asarray(cl.predict(sub)), n_modes=K)
    except TypeError:
        ms = ModeStatistics.from_particles(sub, np.ones(len(sub)) / len(sub), np.asarray(cl.predict(sub)))
    r = make_runner(cell["kernel"], u, logl_fn, ass, cell["beta"], ms, None, None, cell["sigma"])
    out = r.run()
    f0, f1 = test_functions(u), test_functions(out[0])
    zs = {k: rule_p(f1[k] - f0[k]) for k in f0}
    return zs, float(np.mean(np.any(out[0] != u, axis=1))), K


def pipeline_task(cell, W, seed):
    zs, moved, K = pipeline_cell(cell, W, seed)
    worst = max(zs, key=lambda k: abs(zs[k]))
    res = dict(zs=zs, worst=worst, z=zs[worst], moved=moved, confirm=None, K=K)
    if abs(zs[worst]) > Z_P:
        zs2, _, _ = pipeline_cell(cell, W, seed + 7919)
        res["confirm"] = zs2[worst]
    return res


def invariance_task(cell, W, seed, through_parallel=False):
    zs, moved = invariance_cell(cell, W, seed, through_parallel)
    worst = max(zs, key=lambda k: abs(zs[k]))
    res = dict(zs=zs, worst=worst, z=zs[worst], moved=moved, confirm=None)
    if abs(zs[worst]) > Z_P:
        zs2, _ = invariance_cell(cell, W, seed + 7919, through_parallel)
        res["confirm"] = zs2[worst]
    return res


def cells(ck):
    out = []
    kernels = ["tpcn", "rwm"]
    specs = [("exp", "hard", 2), ("tgauss", "hard", 2), ("interior", "hard", 2), ("vm", "periodic", 2), ("exp", "reflective", 2),
             ("tgauss", "reflective-all", 2), ("vm", "mixed", 2)]
    if not ck.quick:
        specs += [("exp", "hard", 3), ("tgauss", "reflective", 3), ("interior", "periodic", 2), ("tgauss", "hard", 4)]
    for kern in kernels:
        for tgt, bk, d in specs:
            for cov in (["diag", "rho"] if (not ck.quick or bk in ("hard", "reflective")) else ["diag"]):
                for nu in ([5.0] if ck.quick else [1.5, 5.0, 1e6]) if kern == "tpcn" else [1e6]:
                    for K in ([1] if ck.quick else [1, 2]):
                        for beta in ([1.0] if ck.quick else [1.0, 0.3]):
                            sigma = (0.5 if kern == "tpcn" else 1.2)
                            out.append(dict(kernel=kern, tgt=tgt, bk=bk, d=d, cov=cov, nu=nu, K=K, beta=beta, sigma=sigma))
    return out


def run():
    ck = Check("C03")
    # ---- M3a
    ncase = ck.pick(2000, 20000)
    seeds = [ck.subseed("conf", i) for i in range(ncase)]
    per = 100
    tasks = [("tvf.checks.c03:_conf_batch", dict(seeds=seeds[s:s + per]), None) for s in range(0, ncase, per)]
    for i, st, val in farm.run(tasks, timeout=900, progress="C03-conformance"):
        if st != "ok":
            ck.inconc(f"conformance batch {i}: {st} {str(val)[:300]}")
            continue
        for sd, desc, bad, stt in val:
            ck.case(desc, nontrivial=stt.get("decisive", 0) > 0)
            ck.event("kernel sweeps under injected randomness compared with the specification", stt.get("sweeps", 1))
            ck.event("walkers with a decisive accept/reject probe", stt.get("decisive", 0))
            ck.event("proposals driven outside the cube", stt.get("outside", 0))
            ck.event("proposals driven into a region of exactly zero likelihood (must be rejected)", stt.get("zero", 0))
            if desc.get("narrow") is not None:
                ck.event("conformance cases on a posterior 1e-3.5..1e-8 of the prior wide", 1)
                ck.event("decisive probes in narrow-posterior cases", stt.get("decisive", 0))
            for key, what in bad:
                ck.violation(key, what, dict(conformance_seed=sd, case=desc))
    # ---- M3b
    W = ck.pick(20000, 100000)
    cl = cells(ck)
    tasks = [("tvf.checks.c03:invariance_task", dict(cell=c, W=W, seed=ck.subseed("inv", i)), None) for i, c in enumerate(cl)]
    if not ck.quick:
        tasks += [("tvf.checks.c03:invariance_task", dict(cell=c, W=W // 2, seed=ck.subseed("par", i), through_parallel=True), None)
                  for i, c in enumerate(cl) if c["K"] == 1 and c["beta"] == 1.0 and c["nu"] in (5.0, 1e6)]
    table = []
    for i, st, val in farm.run(tasks, timeout=1800, progress="C03-invariance"):
        kw = tasks[i][1]
        c = kw["cell"]
        if st == "timeout":
            ck.inconc(f"invariance cell {c}: watchdog")
            continue
        if st != "ok":
            ck.violation("kernel-crashed", f"{c}: {st} {str(val)[-400:]}", dict(cell=c))
            continue
        ck.case(dict(cell=c, parallel=bool(kw.get("through_parallel"))), nontrivial=val["moved"] > 0.02)
        ck.event("invariance cells (exact pi_beta draws -> real kernel sweep)")
        ck.event("walkers pushed through the real kernel", kw["W"])
        table.append(dict(key=cell_key(c), cell=c, worst=val["worst"], z=round(val["z"], 2), confirm=None if val["confirm"] is None else round(val["confirm"], 2),
                          moved=round(val["moved"], 3), parallel=bool(kw.get("through_parallel"))))
        if val["confirm"] is not None:
            if abs(val["confirm"]) > Z_P and np.sign(val["confirm"]) == np.sign(val["z"]):
                ck.violation(cell_key(c), f"one sweep of the real {c['kernel']} kernel on exact draws of pi_beta (target {c['tgt']}, boundary {c['bk']}, "
                             f"proposal covariance {c['cov']}, nu={c['nu']}, K={c['K']}, beta={c['beta']}) shifts E[{val['worst']}]: z={val['z']:.1f}, "
                             f"confirmed z={val['confirm']:.1f} on a fresh batch of {kw['W']} walkers", dict(cell=c, seed=kw["seed"]))
            else:
                ck.note(f"fluctuation: {cell_key(c)} {val['worst']} z={val['z']:.2f} then {val['confirm']:.2f}")
    ck.tables["invariance"] = table
    # ---- M3c: position-dependent cluster assignment produced by the library's own clusterer
    pcells = [dict(kernel=k, tgt=t, d=2, beta=1.0, nu=1e6, sigma=(0.5 if k == "tpcn" else 1.2), cap=c)
              for k in ("tpcn", "rwm") for t in (("exp", "tgauss") if ck.quick else ("exp", "tgauss", "interior", "vm")) for c in ((3,) if ck.quick else (2, 3, 4))]
    ptasks = [("tvf.checks.c03:pipeline_task", dict(cell=c, W=W, seed=ck.subseed("pipe", i)), None) for i, c in enumerate(pcells)]
    ptable = []
    for i, st, val in farm.run(ptasks, timeout=1800, progress="C03-pipeline"):
        c = ptasks[i][1]["cell"]
        if st == "timeout":
            ck.inconc(f"pipeline cell {c}: watchdog")
            continue
        if st != "ok":
            ck.violation("kernel-crashed", f"pipeline cell {c}: {st} {str(val)[-400:]}", dict(cell=c))
            continue
        ck.case(dict(pipeline_cell=c, K=val["K"]), nontrivial=val["K"] > 1)
        ck.event("pipeline cells (assignments from the library's clusterer on exact pi_beta draws)")
        if val["K"] > 1:
            ck.event("pipeline cells in which the clusterer split the sample (K > 1)")
        ptable.append(dict(cell=c, K=val["K"], worst=val["worst"], z=round(val["z"], 2), confirm=None if val["confirm"] is None else round(val["confirm"], 2)))
        if val["confirm"] is not None and abs(val["confirm"]) > Z_P and np.sign(val["confirm"]) == np.sign(val["z"]):
            key = "state-dependent-assignment" if val["K"] > 1 else f"{c['kernel']}+hard"
            ck.violation(key, f"exact draws of pi_beta (target {c['tgt']}), cluster labels = clusterer.predict(position) with K={val['K']} clusters, mode "
                         f"statistics from ModeStatistics.from_particles: one sweep of the real {c['kernel']} kernel shifts E[{val['worst']}]: z={val['z']:.1f}, "
                         f"confirmed z={val['confirm']:.1f}", dict(pipeline_cell=c))
    ck.tables["pipeline"] = ptable
    ck.require_events("kernel sweeps under injected randomness compared with the specification", "walkers with a decisive accept/reject probe",
                      "proposals driven outside the cube", "invariance cells (exact pi_beta draws -> real kernel sweep)")
    return ck.finish(
        rule="M3a: generated (d<=5, K<=3, means, SPD scale matrices incl. rho=0.9 and diagonal, nu in {0.7,2,5,30,1e6}, sigma, beta, boundary kind per "
             "coordinate) with gamma/normal/uniform draws served by the RNG interposer (innovations up to 30 sd so proposals leave the cube / wrap "
             "repeatedly; uniforms at alpha(1+-1e-6)); M3b: cells kernel x target {exp face, truncated Gaussian, interior correlated, von Mises} x "
             "boundary {hard, periodic, reflective, mixed} x covariance {diag, rho 0.9} x nu x K x beta, exact inverse-CDF draws, paired z over "
             "13 test functions, flag |z|>5 confirmed on a fresh batch; non-trivial = decisive probe present / >2% of walkers moved",
        assumptions=["scipy.stats.multivariate_t and the closed-form tpCN reversibility t(u)q(u'|u)=t(u')q(u|u') as specification"],
    )


def replay(rec):
    w = rec["witness"] or {}
    if "conformance_seed" in w:
        desc, bad, st = conformance_case(w["conformance_seed"])
        print(desc, bad or "held", st)
        return 1 if bad else 0
    if "cell" in w:
        r = invariance_task(w["cell"], 20000, w.get("seed", 1))
        print(r["worst"], r["z"], r["confirm"])
        return 1 if (r["confirm"] is not None and abs(r["confirm"]) > Z_P) else 0
    return 2

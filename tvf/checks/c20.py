"""C20 - weight utilities: ESS bounds, trimming contract, affine-invariant volume metric.

Contract-style monitors around the real tools.effective_sample_size / compute_ess /
trim_weights / volume_variation, driven with generated weight vectors (length 1..1e4,
dynamic range to 1e300, zeros, ties, tempering-like skew) under an FP-exception trap.
"""
from __future__ import annotations

import os

import numpy as np

from tvf import farm
from tvf.env import Check, fmt_exc
from tvf.oracles import ess_ref, LD


def gen_w(rng, nmax=10000):
    r = rng.random()
    n = 1 if r < 0.03 else int(rng.integers(2, 30)) if r < 0.5 else int(rng.integers(30, 1000)) if r < 0.9 else int(rng.integers(1000, nmax + 1))
    if rng.random() < 0.01:
        n = int(rng.integers(70000, 200000))           # beyond 2**16 entries
    kind = str(rng.choice(["uniform", "dirichlet", "tempering", "huge-range", "zeros", "ties", "one-hot", "two-level", "floor+minority", "pareto"]))
    if kind == "uniform":
        w = np.ones(n)
    elif kind == "dirichlet":
        w = rng.dirichlet(np.full(n, 10 ** rng.uniform(-2, 1)))
    elif kind == "tempering":
        w = np.exp(-10 ** rng.uniform(-1, 2.5) * rng.exponential(1.0, n))
    elif kind == "huge-range":
        w = 10.0 ** rng.uniform(-300, 300 - np.log10(n) - 1, n)
    elif kind == "zeros":
        w = rng.random(n) * (rng.random(n) < 0.5)
    elif kind == "ties":
        w = rng.choice([1.0, 2.0, 5.0], n)
    elif kind == "one-hot":
        w = np.full(n, 1e-30)
        w[rng.integers(n)] = 1.0
    elif kind == "floor+minority":
        # a nearly flat floor of distinct light weights and a small minority 2..30 times heavier (counting samples is not counting ESS)
        w = rng.uniform(0.9, 1.1, n)
        heavy = rng.random(n) < 10 ** rng.uniform(-3, -1)
        w = np.where(heavy, w * rng.uniform(2, 30, n), w)
    elif kind == "pareto":
        w = 1.0 + rng.pareto(10 ** rng.uniform(-0.3, 0.7), n)
    else:
        w = np.where(rng.random(n) < 0.1, 1.0, 1e-4)
    w = np.abs(np.asarray(w, float))
    if not np.any(w > 0):
        w[0] = 1.0
    scale = 10.0 ** rng.uniform(-30, 30) if kind != "huge-range" else 1.0
    r = rng.random()
    if kind not in ("huge-range",) and r < 0.06:
        scale = 10.0 ** rng.uniform(-250, -160)        # squares of the raw weights underflow
    elif kind not in ("huge-range",) and r < 0.12:
        scale = 10.0 ** rng.uniform(150, 250)          # squares of the raw weights overflow
    ws = w * scale
    if not np.any(ws > 0) or not np.all(np.isfinite(ws)) or not np.isfinite(float(np.sum(ws))):
        ws = w          # the rescaling underflowed every weight to zero (or overflowed the sum): outside "positive finite sum"
    return ws, kind


def check_ess(w, kind):
    from tempest.tools import effective_sample_size, compute_ess
    bad = []
    n = len(w)
    try:
        with np.errstate(over="raise", invalid="raise", divide="raise"):
            e = float(effective_sample_size(w.copy()))
    except FloatingPointError as ex:
        return [("ess-fp-exception", f"effective_sample_size raised FP exception {ex} for kind={kind} n={n}")]
    ref = float(ess_ref(w))
    if not np.isfinite(e) or e < 1 - 1e-9 or e > n * (1 + 1e-9):
        bad.append(("ess-bounds", f"ESS={e!r} outside [1,{n}] (kind={kind})"))
    if abs(e - ref) > 1e-9 * ref:
        bad.append(("ess-value", f"ESS={e!r} reference {ref!r}"))
    for c in (1e-3, 7.0, 1e10):
        wc = w * c
        if np.all(np.isfinite(wc)) and np.sum(wc) > 0 and np.isfinite(np.sum(wc)) and np.min(wc[wc > 0]) > 1e-300:
            e2 = float(effective_sample_size(wc))
            if abs(e2 - e) > 1e-9 * e:
                bad.append(("ess-scale", f"ESS changes under rescaling by {c}: {e!r} -> {e2!r}"))
    if kind == "uniform" and abs(e - n) > 1e-9 * n:
        bad.append(("ess-uniform", f"uniform weights: ESS={e!r} != N={n}"))
    if n <= 2000:
        # the same weights as a Python list and (for integer-valued weights) as an integer array
        try:
            el = float(effective_sample_size(list(map(float, w))))
            if abs(el - ref) > 1e-9 * ref:
                bad.append(("ess-input-form", f"ESS of the weights given as a list: {el!r}, reference {ref!r}"))
        except TypeError:
            pass                 # a list is not promised to be accepted
        wi = np.rint(w / w[w > 0].min()).astype(np.int64) if (w > 0).any() and w.max() / w[w > 0].min() < 1e6 else None
        if wi is not None and wi.sum() > 0:
            ei = float(effective_sample_size(wi))
            refi = float(ess_ref(wi.astype(float)))
            if abs(ei - refi) > 1e-9 * refi:
                bad.append(("ess-input-form", f"ESS of integer weights: {ei!r}, reference {refi!r}"))
    # compute_ess on log-weights (fraction of N)
    pos = w > 0
    if pos.all():
        lw = np.log(w)
        with np.errstate(all="ignore"):
            f = float(compute_ess(lw))
            f2 = float(compute_ess(lw + 123.456))
            f3 = float(compute_ess(lw - np.max(lw) + 5000.0))
            f4 = float(compute_ess(lw - np.max(lw) - 5000.0))
        if not (1.0 / n - 1e-12 <= f <= 1 + 1e-9) or abs(f * n - ref) > 1e-7 * ref:
            bad.append(("compute-ess", f"compute_ess={f!r} (x N = {f * n!r}) reference ESS {ref!r}"))
        if n >= 2:
            lz = np.concatenate([lw, [-np.inf]])       # a zero weight: ESS unchanged, fraction refers to n+1 samples
            with np.errstate(all="ignore"):
                f5 = float(compute_ess(lz))
            if not (abs(f5 * (n + 1) - ref) <= 1e-7 * ref):
                bad.append(("compute-ess", f"compute_ess with one -inf log-weight appended: {f5!r} x (N+1) = {f5 * (n + 1)!r}, reference ESS {ref!r}"))
        if abs(f2 - f) > 1e-9 or not (abs(f3 - f) <= 1e-9) or not (abs(f4 - f) <= 1e-9):
            bad.append(("compute-ess-shift", f"compute_ess not invariant to log-weight shift: {f!r} vs {f2!r} (+123), {f3!r} (max=+5000), {f4!r} (max=-5000)"))
    return bad


def check_trim(rng, w, kind):
    from tempest.tools import trim_weights
    bad = []
    n = len(w)
    frac = float(rng.choice([0.5, 0.9, 0.99, 0.999, rng.uniform(0.01, 0.999)]))
    bins = int(rng.choice([2, 10, 100, 1000]))
    wn = w / w.sum()
    samples = np.arange(n)
    if rng.random() < 0.3:
        samples = np.stack([np.arange(n), -np.arange(n)], axis=1).astype(float)
    # call forms: keywords, positional, or the defaults (ess=0.99, bins=1000) left out
    form = str(rng.choice(["kw", "kw", "pos", "defaults"]))
    if form == "defaults":
        frac, bins = 0.99, 1000
    try:
        if form == "defaults":
            s_out, w_out = trim_weights(samples, w.copy())
        elif form == "pos":
            s_out, w_out = trim_weights(samples, w.copy(), frac, bins)
        else:
            s_out, w_out = trim_weights(samples, w.copy(), ess=frac, bins=bins)      # (normalises its weight argument in place: a copy is handed over)
    except Exception as e:
        return [(f"trim-exception-{type(e).__name__}", f"trim_weights raised {e} (n={n}, ess={frac}, bins={bins}, kind={kind})")], frac, bins
    w_in = w.copy()
    s2, w2 = trim_weights(samples, w_in, ess=frac, bins=bins)
    s3, w3 = trim_weights(samples, w_in, ess=frac, bins=bins)      # second call on the array the first call was given
    if len(w2) != len(w_out) or len(w3) != len(w_out) or not np.allclose(w3, w_out, rtol=1e-12, atol=0):
        bad.append(("trim-not-repeatable", f"calling trim_weights again on the same array gives {len(w3)} / {len(w2)} samples instead of {len(w_out)}"))
    ids = (s_out if s_out.ndim == 1 else s_out[:, 0]).astype(int)
    if len(ids) != len(w_out) or len(ids) == 0:
        return [("trim-length", f"samples {len(ids)} vs weights {len(w_out)}")], frac, bins
    if s_out.ndim == 2 and not np.array_equal(s_out[:, 1], -s_out[:, 0]):
        bad.append(("trim-misaligned", "rows of a 2-D sample array were split"))
    if np.any(np.diff(ids) <= 0) or ids.min() < 0 or ids.max() >= n:
        bad.append(("trim-order", "returned samples are not an ordered subset"))
        return bad, frac, bins
    keep = np.zeros(n, bool)
    keep[ids] = True
    if (~keep).any() and wn[~keep].max() >= wn[keep].min():
        bad.append(("trim-threshold", f"not a threshold set: dropped weight {wn[~keep].max()!r} >= kept weight {wn[keep].min()!r}"))
    exp = wn[ids] / wn[ids].sum()
    if not np.allclose(w_out, exp, rtol=1e-9, atol=0):
        bad.append(("trim-weights", f"returned weights are not the renormalised weights of the kept samples (max rel err {np.max(np.abs(w_out / exp - 1)):.3g})"))
    if abs(float(np.sum(w_out)) - 1) > 1e-9:
        bad.append(("trim-sum", f"trimmed weights sum to {np.sum(w_out)!r}"))
    e0, e1 = float(ess_ref(wn)), float(ess_ref(exp))
    # (the library forms the same ratio in double precision from <= 1.2e4 terms: 1e-11 covers its rounding, nothing more)
    if e1 < frac * e0 * (1 - 1e-11):
        bad.append(("trim-ess", f"trimmed ESS {e1!r} < {frac} * {e0!r}"))
    # directed: ask for a hair more than what this cut achieves - the answer must move to a cut that really provides it
    if not bad and len(ids) < n:
        r_ach = e1 / e0
        for delta in (4e-10, 3e-11):
            req = r_ach * (1 + delta)
            if not (0 < req < 1):
                continue
            try:
                s4, w4 = trim_weights(samples, w.copy(), ess=req, bins=bins)
            except Exception as e:
                # (a request the percentile grid cannot meet is allowed to fail loudly - that is not the clause judged here)
                continue
            ids4 = (s4 if s4.ndim == 1 else s4[:, 0]).astype(int)
            e4 = float(ess_ref(wn[ids4] / wn[ids4].sum()))
            check_trim.directed = getattr(check_trim, "directed", 0) + 1
            if e4 < req * e0 * (1 - 1e-11):
                bad.append(("trim-ess", f"requested fraction {req!r} (= the ratio {r_ach!r} reached at ess={frac}, times 1+{delta}): trimmed ESS {e4!r} is only "
                            f"{e4 / e0!r} of the untrimmed {e0!r}"))
                break
    return bad, frac, bins


def check_volume(rng):
    from tempest.tools import volume_variation
    bad = []
    d = int(rng.integers(1, 7))
    n = int(rng.integers(d + 2, 400))
    kind = str(rng.choice(["gauss", "uniform", "bimodal", "heavy"]))
    if rng.random() < 0.1 and d > 1:
        kind = "rank-deficient"
    x = (rng.standard_normal((n, 1)) @ rng.standard_normal((1, d))) if kind == "rank-deficient" else \
        rng.standard_normal((n, d)) if kind == "gauss" else rng.random((n, d)) if kind == "uniform" else \
        rng.standard_normal((n, d)) + 6 * (rng.random((n, 1)) < 0.3) if kind == "bimodal" else rng.standard_t(2.5, (n, d))
    w = rng.dirichlet(np.full(n, 10 ** rng.uniform(-0.5, 1))) if rng.random() < 0.8 else None
    if rng.random() < 0.15 and kind != "rank-deficient":
        # one sample thousands of standard deviations away that carries 1e-9..1e-5 of the weight (a stale particle of an early
        # iteration): its Mahalanobis distance is in the range where overflow guards act
        kind = kind + "|outlier"
        dirn = rng.standard_normal(d)
        dirn /= np.linalg.norm(dirn)
        x[0] = x.mean(0) + 10 ** rng.uniform(3.1, 5.5) * x.std(0).mean() * dirn
        if w is None:
            w = np.ones(n) / n
        w = w.copy()
        w[0] = 10 ** rng.uniform(-9, -5) * w[1:].sum()
        w /= w.sum()
    if rng.random() < 0.12 and "|" not in kind and kind != "rank-deficient" and n >= 12 * d:
        # a late persistent-sampling pool: broad early samples whose weights have underflowed to almost nothing, and a tight
        # cluster carrying all the weight, 1e4..1e8 of its own spreads away from where most samples are
        kind = kind + "|tight-subcloud"
        m_sub = max(d + 3, int(n * rng.uniform(0.1, 0.4)))
        sub = rng.choice(n, size=m_sub, replace=False)
        centre = rng.standard_normal(d)
        centre /= np.linalg.norm(centre)
        spread_sub = 10 ** rng.uniform(-8, -4)
        x[sub] = 3.0 * centre + spread_sub * rng.standard_normal((m_sub, d))
        w = np.full(n, 10.0 ** -rng.uniform(30, 300))
        w[sub] = rng.dirichlet(np.full(m_sub, 3.0))
        w /= w.sum()
    if rng.random() < 0.2 and d > 1:
        # structurally degenerate pools (the regularised branch of the metric): a constant coordinate, a repeated coordinate,
        # or fewer than d+1 samples carrying weight
        sub = str(rng.choice(["const-coord", "dup-coord", "few-weighted"]))
        kind = kind + "+" + sub
        if sub == "const-coord":
            x[:, int(rng.integers(d))] = float(rng.choice([0.0, 0.5, rng.standard_normal()]))
        elif sub == "dup-coord":
            x[:, 0] = x[:, d - 1]
        else:
            w = np.zeros(n)
            keep = rng.choice(n, size=int(rng.integers(2, d + 1)), replace=False)
            w[keep] = rng.dirichlet(np.ones(len(keep)))
    with np.errstate(all="ignore"):
        v = float(volume_variation(x, None if w is None else w.copy()))
        # the same samples in column-major layout and called twice on one array: the value is a function of the samples
        xf = np.asfortranarray(x).copy(order="F")
        vf1 = float(volume_variation(xf, None if w is None else w.copy()))
        vf2 = float(volume_variation(xf, None if w is None else w.copy()))
        plain = not ("rank" in kind or "+" in kind or "|" in kind)      # (elsewhere the rank decision is a matter of rounding, i.e. of summation order)
        if np.isfinite(v) and ((plain and abs(vf1 - v) > 1e-9 * max(abs(v), 1e-300)) or vf2 != vf1):
            bad.append(("volume-layout", f"{kind} pool: {v!r} for row-major samples, {vf1!r} / {vf2!r} for two calls on one column-major array"))
    desc = dict(d=d, n=n, kind=kind, weighted=w is not None)
    # multiplying the samples by a power of two is exact in floating point: every intermediate quantity (covariance, rank
    # decision, ridge, distances) scales exactly, so the metric must not move at all - on any pool, degenerate or not
    if np.isfinite(v):
        for kexp in (-20, -33, -40, 17):
            with np.errstate(all="ignore"):
                vs = float(volume_variation(x * 2.0 ** kexp, None if w is None else w.copy()))
            if not (abs(vs - v) <= 1e-12 * max(abs(v), 1e-300)):
                bad.append(("volume-sample-scale", f"samples multiplied by 2**{kexp} ({kind} pool): {v!r} -> {vs!r}"))
                break
        desc["pow2"] = 4
        # single-precision sample arrays (values exactly representable), with and without weights, under per-axis power-of-two
        # scalings (exact in either precision; condition number of the map up to 2**24)
        if "+" not in kind and "rank" not in kind and d > 1:
            x32 = x.astype(np.float32)
            ex = rng.integers(-9, 10, d)            # condition number of the map <= 2**18 (the property goes up to 1e6)
            y32 = (x32 * (2.0 ** ex).astype(np.float32)).astype(np.float32)
            yy = y32.astype(float)
            for ww_ in ([None] if w is None else [None, w]):
                w64 = np.ones(n) / n if ww_ is None else ww_ / ww_.sum()
                covy = (yy - w64 @ yy).T @ ((yy - w64 @ yy) * w64[:, None])
                covx = (x32.astype(float) - w64 @ x32.astype(float)).T @ ((x32.astype(float) - w64 @ x32.astype(float)) * w64[:, None])
                # (the arithmetic is double precision; both clouds must be comfortably full rank for the pair to be judged)
                tol32 = max(1e-8, 1000 * np.finfo(float).eps * max(float(np.linalg.cond(covy)), float(np.linalg.cond(covx))))
                with np.errstate(all="ignore"):
                    a32 = float(volume_variation(x32, None if ww_ is None else ww_.copy()))
                    b32 = float(volume_variation(y32, None if ww_ is None else ww_.copy()))
                if tol32 <= 1e-3 and np.isfinite(a32) and not (abs(a32 - b32) <= tol32 * max(abs(a32), 1e-300)):
                    bad.append(("volume-affine", f"float32 samples ({'no' if ww_ is None else 'with'} weights), axes scaled by 2**{ex.tolist()} (exact): {a32!r} -> {b32!r}"))
                    break
            desc["f32"] = 1
        # rigid motions of structurally degenerate pools: the ridge of the regularised branch is isotropic and proportional to
        # the trace, so rotations / reflections, translations and power-of-two scalings must leave the metric alone.  Judged
        # only when the rank decision is not a matter of rounding for either cloud.
        if "+" in kind and d >= 2:
            ww0 = np.ones(n) / n if w is None else w / w.sum()

            def clearly_deficient(z):
                zc = z - np.sum(z * ww0[:, None], axis=0)
                cv = zc.T @ (zc * ww0[:, None])
                sv = np.linalg.svd(cv, compute_uv=False)
                return sv[0] > 0 and sv[-1] < 0.2 * d * np.finfo(float).eps * sv[0] and sv[min(1, d - 1)] > 1e-6 * sv[0]
            Q, _ = np.linalg.qr(rng.standard_normal((d, d)))
            spread1 = float(np.sqrt(np.trace(np.cov(x.T, aweights=ww0)) / d)) if d > 1 else 1.0
            bvec = rng.standard_normal(d) * spread1 * 10 ** rng.uniform(-1, 1)
            y = (x @ Q.T) * 2.0 ** int(rng.integers(-8, 9)) + bvec
            if clearly_deficient(x) and clearly_deficient(y):
                with np.errstate(all="ignore"):
                    vy = float(volume_variation(y, None if w is None else w.copy()))
                desc["rigid"] = 1
                if not (abs(vy - v) <= 1e-7 * max(abs(v), 1e-300) + 1e-9):
                    bad.append(("volume-affine", f"{kind} pool under a rotation/reflection + translation + power-of-two scaling: {v!r} -> {vy!r}"))
    if not (v >= 0) or not np.isfinite(v):
        bad.append(("volume-negative", f"volume_variation={v!r}"))
        return bad, desc, False
    ww = np.ones(n) / n if w is None else w
    mu = ww @ x
    cov = (x - mu).T @ ((x - mu) * ww[:, None])
    k0 = np.linalg.cond(cov)
    if k0 > 1e8:
        # ill-conditioned / rank-deficient pool: whether the regularisation branch is taken is decided by rounding
        # (matrix_rank of a numerically singular matrix), so neither affine nor scale invariance is judged there
        return bad, desc, False
    # pure rescaling of the samples
    for c in (1e-6, 37.0, 1e5):
        with np.errstate(all="ignore"):
            vs = float(volume_variation(x * c, None if w is None else w.copy()))
        if abs(vs - v) > 1e-6 * max(v, 1e-12):
            bad.append(("volume-sample-scale", f"samples multiplied by {c}: {v!r} -> {vs!r}"))
            break
    # weight rescaling (the weighted mean is subtracted from the samples: |mean|/spread digits are lost to rounding, whatever the weights' scale)
    amp = 1.0 + float(np.linalg.norm(mu)) / max(float(np.sqrt(np.trace(cov) / d)), 1e-300)
    tolw = 1e-9 + 100 * np.finfo(float).eps * amp * k0
    if w is not None and tolw <= 1e-3:
        for c in (1e-8, 3.0, 1e12):
            v2 = float(volume_variation(x, w * c))
            if abs(v2 - v) > tolw * max(v, 1e-12):
                bad.append(("volume-weight-scale", f"rescaling weights by {c}: {v!r} -> {v2!r}"))
    # weight sums within sqrt(eps) of one (the tolerance other routines use to skip renormalisation), samples far from the origin
    if w is not None:
        spread0 = float(np.sqrt(np.trace(cov) / d))
        xf = x + 1e6 * spread0 * np.sign(rng.standard_normal(d))
        with np.errstate(all="ignore"):
            vf = float(volume_variation(xf, w.copy()))
            for c in (1 + 1e-8, 1 - 1e-8, 1 + 1.4e-8):
                vc = float(volume_variation(xf, w * c))
                if abs(vc - vf) > 1e-6 * max(vf, 1e-12):
                    bad.append(("volume-weight-scale", f"samples at 1e6 spreads from the origin, weights rescaled by {c!r}: {vf!r} -> {vc!r}"))
                    break
    # affine maps
    cond = 10 ** rng.uniform(0, 6)
    U, _ = np.linalg.qr(rng.standard_normal((d, d)))
    V, _ = np.linalg.qr(rng.standard_normal((d, d)))
    sv = np.geomspace(1.0, cond, d) if d > 1 else np.array([cond])
    A = U @ np.diag(sv * 10 ** rng.uniform(-3, 3)) @ V.T
    b = rng.standard_normal(d) * 10 ** rng.uniform(-2, 3)
    y = x @ A.T + b
    covy = (y - ww @ y).T @ ((y - ww @ y) * ww[:, None])
    kap = np.linalg.cond(covy)
    # also the translation eats digits: |b|/spread
    spread = np.sqrt(np.trace(covy) / d)
    loss = kap * (1.0 + np.linalg.norm(ww @ y) / max(spread, 1e-300))
    tol = 1000 * np.finfo(float).eps * loss
    judged = tol <= 1e-2
    if judged:
        with np.errstate(all="ignore"):
            vy = float(volume_variation(y, None if w is None else w.copy()))
        if abs(vy - v) > tol * max(v, 1e-12) + 1e-12:
            bad.append(("volume-affine", f"affine map (cond {cond:.3g}, measured kappa {kap:.3g}): {v!r} -> {vy!r} (tol {tol:.2g})"))
    desc["cond"] = float(cond)
    return bad, desc, judged


def _batch(seed, start, count):
    os.environ["VERIF_SEED"] = str(seed)
    ck = Check("C20")
    res = []
    for i in range(start, start + count):
        rng = ck.rng("w", i)
        w, kind = gen_w(rng)
        out = []
        d0 = getattr(check_trim, "directed", 0)
        try:
            out += [(k, wh) for k, wh in check_ess(w, kind)]
            bt, frac, bins = check_trim(rng, w, kind)
            out += bt
        except Exception:
            out.append(("exception", fmt_exc()))
            frac = bins = None
        rng2 = ck.rng("vol", i)
        vdesc, judged = {}, False
        if i % 3 == 0:
            try:
                bv, vdesc, judged = check_volume(rng2)
                out += bv
            except Exception:
                out.append(("exception", fmt_exc()))
        res.append((i, dict(n=len(w), kind=kind, ess_frac=frac, bins=bins, directed=getattr(check_trim, "directed", 0) - d0), out, vdesc, judged,
                    float(ess_ref(w)) < len(w) * 0.999))
    return res


def run():
    ck = Check("C20")
    n = ck.pick(3000, 100000)
    per = ck.pick(100, 500)
    tasks = [("tvf.checks.c20:_batch", dict(seed=ck.seed, start=s, count=min(per, n - s)), None) for s in range(0, n, per)]
    for i, st, val in farm.run(tasks, timeout=1800, progress="C20"):
        if st != "ok":
            ck.inconc(f"batch {i}: {st} {str(val)[:300]}")
            continue
        for idx, desc, bad, vdesc, judged, skew in val:
            ck.case(desc, nontrivial=skew)
            ck.event("ESS contract evaluated")
            ck.event("trim_weights contract evaluated")
            ck.event("directed re-requests (a fraction 4e-10 / 3e-11 above the ratio the previous cut reached)", desc.get("directed", 0))
            if vdesc:
                ck.case(dict(volume=vdesc), nontrivial=judged)
                ck.event("volume_variation case")
                ck.event("volume_variation under exact power-of-two rescaling of the samples", vdesc.get("pow2", 0))
                ck.event("degenerate pools under a rigid motion (rank decision robust for both clouds)", vdesc.get("rigid", 0))
                ck.event("float32 sample arrays under exact per-axis power-of-two scalings", vdesc.get("f32", 0))
                if "|tight-subcloud" in vdesc.get("kind", ""):
                    ck.event("pools whose weight sits on a tight cluster 1e4..1e8 of its spreads away from the bulk of the samples" + (" (affine pair judged)" if judged else ""))
                if "|outlier" in vdesc.get("kind", ""):
                    ck.event("pools with one sample > 1000 standard deviations away carrying 1e-9..1e-5 of the weight" + (" (affine pair judged)" if judged else ""))
                if "+" in vdesc.get("kind", ""):
                    ck.event("structurally degenerate pools (regularised branch) under power-of-two rescaling")
                if judged:
                    ck.event("volume_variation affine invariance judged")
                else:
                    ck.event("volume_variation case ill-conditioned (not judged)")
            for key, what in bad:
                ck.violation(key, what, dict(stream=["w", idx], case=desc, volume=vdesc))
    if not ck.quick:
        from tvf.contracts_run import run_suite_with_contracts
        run_suite_with_contracts(ck, ['effective_sample_size', 'trim_weights'])
    ck.require_events("ESS contract evaluated", "trim_weights contract evaluated", "volume_variation affine invariance judged")
    return ck.finish(
        rule="weight vectors from VERIF_SEED: uniform, Dirichlet(alpha 0.01..10), tempering-like, 600-decade dynamic range, zeros, ties, "
             "one-hot, two-level; lengths 1..1e4; global scale 1e-30..1e30; trimming fractions {0.5,0.9,0.99,0.999,U(0.01,0.999)} x bins "
             "{2,10,100,1000}; volume metric on d 1..6 samples under affine maps of condition number 1..1e6 with tolerance "
             "1000*eps*kappa(mapped covariance) (cases above 1e-2 counted ill-conditioned, not judged); non-trivial = non-uniform weights",
        assumptions=["long-double ESS reference; conditioning-aware tolerance for the affine clause"],
    )


def replay(rec):
    os.environ["VERIF_SEED"] = str(rec["seed"])
    ck = Check("C20")
    w = rec["witness"] or {}
    if "stream" in w:
        i = w["stream"][1]
        r = _batch(rec["seed"], i, 1)
        print(r[0][2] or "held")
        return 1 if r[0][2] else 0
    return 2

"""C19 - Student-t proposal fit is well-posed and equivariant.

Contract monitors on the real fit_mvstud / ModeStatistics.from_particles / from_global:
well-posedness, metamorphic equivariance pairs (per-coordinate scaling, translation,
permutation) and recovery of the generating parameters on large multivariate-t samples.
"""
from __future__ import annotations

import contextlib
import io
import os

import numpy as np

from tvf import farm
from tvf.env import Check, fmt_exc


def gen_data(rng):
    d = int(rng.integers(1, 9))
    n = int(rng.integers(4 * d, 4 * d + 40)) if rng.random() < 0.3 else int(rng.integers(4 * d, 1500))
    kind = str(rng.choice(["gauss", "mvt", "skewed", "contaminated", "uniform", "correlated"]))
    A = rng.standard_normal((d, d)) * 0.5 + np.eye(d)
    if kind == "gauss":
        X = rng.standard_normal((n, d)) @ A.T
    elif kind == "mvt":
        nu = float(rng.choice([1.5, 3, 5, 10, 30]))
        g = rng.chisquare(nu, n) / nu
        X = (rng.standard_normal((n, d)) / np.sqrt(g)[:, None]) @ A.T
    elif kind == "skewed":
        X = rng.gamma(2.0, 1.0, (n, d)) @ A.T
    elif kind == "contaminated":
        X = rng.standard_normal((n, d))
        m = rng.random(n) < 0.05
        X[m] += 20 * rng.standard_normal((int(m.sum()), d))
    elif kind == "uniform":
        X = rng.random((n, d))
    else:
        rho = 0.95
        C = np.full((d, d), rho) + (1 - rho) * np.eye(d)
        X = rng.standard_normal((n, d)) @ np.linalg.cholesky(C).T
    return X, dict(d=d, n=n, kind=kind)


def fit(X):
    from tempest.student import fit_mvstud
    with contextlib.redirect_stdout(io.StringIO()), np.errstate(all="ignore"):
        return fit_mvstud(X.copy())


def well_posed(X, mu, S, nu, tag=""):
    bad = []
    d = X.shape[1]
    mu = np.asarray(mu)
    S = np.asarray(S).reshape(d, d)
    if mu.shape != (d,) or not np.all(np.isfinite(mu)):
        bad.append(("location-nonfinite", f"{tag}location {mu}"))
    else:
        lo, hi = X.min(0), X.max(0)
        tol = 1e-9 * (np.abs(lo) + np.abs(hi) + (hi - lo))
        if np.any(mu < lo - tol) or np.any(mu > hi + tol):
            bad.append(("location-outside-box", f"{tag}location {mu} outside [{lo},{hi}]"))
    if not np.all(np.isfinite(S)):
        bad.append(("scale-nonfinite", f"{tag}scale matrix non-finite"))
    else:
        if not np.allclose(S, S.T, rtol=1e-13, atol=0):
            bad.append(("scale-asymmetric", f"{tag}scale matrix not symmetric"))
        try:
            ev = np.linalg.eigvalsh(0.5 * (S + S.T))
            if ev.min() <= 0:
                bad.append(("scale-not-pd", f"{tag}scale matrix not positive definite (min eig {ev.min():.3g})"))
        except np.linalg.LinAlgError:
            bad.append(("scale-not-pd", f"{tag}eigvalsh failed"))
    if not (nu > 0) or np.isnan(nu):
        bad.append(("dof-range", f"{tag}nu={nu!r} not in (0, inf]"))
    return bad


def check_case(rng, X, desc):
    bad = []
    d = X.shape[1]
    try:
        mu, S, nu = fit(X)
    except Exception as e:
        return [(f"fit-exception-{type(e).__name__}", f"fit_mvstud raised {e} on {desc}")], None
    S = np.asarray(S).reshape(d, d)
    bad += well_posed(X, mu, S, nu)
    if bad:
        return bad, float(nu)
    # the routine is handed the caller's own array (no defensive copy by the harness) in row-major, column-major and strided
    # layout: the data must come back untouched and the estimate must not depend on the layout
    from tempest.student import fit_mvstud as _fit
    for lay in ("C", "F", "strided", "read-only"):
        if lay == "C":
            Xl = np.ascontiguousarray(X).copy()
        elif lay == "read-only":
            Xl = np.ascontiguousarray(X).copy()
            Xl.setflags(write=False)
        elif lay == "F":
            Xl = np.asfortranarray(X).copy(order="F")
        else:
            big = np.zeros((2 * X.shape[0], 2 * d))
            Xl = big[::2, ::2]
            Xl[...] = X
        keep = np.array(Xl, copy=True)
        try:
            with contextlib.redirect_stdout(io.StringIO()), np.errstate(all="ignore"):
                mu_l, S_l, nu_l = _fit(Xl)
        except Exception as e:
            bad.append((f"fit-exception-layout-{lay}", f"fit_mvstud raised {type(e).__name__}: {e} on a {lay} array"))
            continue
        # the caller fits the SAME array object again (e.g. after an equivariance transform in place, or simply twice): the estimate
        # is a function of the data the caller sees
        try:
            with contextlib.redirect_stdout(io.StringIO()), np.errstate(all="ignore"):
                mu_2, S_2, nu_2 = _fit(Xl)
            S_2 = np.asarray(S_2).reshape(d, d)
            sd0 = np.sqrt(np.diag(S))
            if float(np.max(np.abs(np.asarray(mu_2) - np.asarray(mu_l)) / sd0)) > 1e-9 or float(np.max(np.abs(S_2 - np.asarray(S_l).reshape(d, d)) / np.outer(sd0, sd0))) > 1e-9:
                bad.append(("refit-differs", f"fitting the same ({lay}-layout) array object twice gives two estimates (rows changed in the caller's array: "
                            f"{int(np.sum(np.any(Xl != keep, axis=1)))} of {len(keep)})"))
        except Exception as e:
            bad.append((f"fit-exception-layout-{lay}", f"second fit of the same array raised {type(e).__name__}: {e}"))
        S_l = np.asarray(S_l).reshape(d, d)
        sdl = np.sqrt(np.diag(S))
        if float(np.max(np.abs(np.asarray(mu_l) - mu) / sdl)) > 1e-9 or float(np.max(np.abs(S_l - S) / np.outer(sdl, sdl))) > 1e-9:
            bad.append(("layout-dependent", f"fit_mvstud on a {lay}-layout copy of the same data gives another estimate"))
    desc["layouts"] = 4
    # equivariance pairs
    s = 10.0 ** rng.uniform(-6, 6, d)
    t = rng.standard_normal(d) * 10 ** rng.uniform(-1, 2)
    p = rng.permutation(d)
    def rel(a, b, scale):
        return float(np.max(np.abs(a - b) / scale))
    def nu_close(a, b):
        if np.isinf(a) or np.isinf(b):
            return np.isinf(a) and np.isinf(b) or min(a, b) > 1e5
        return abs(a - b) <= 1e-4 * max(a, b) or min(a, b) > 1e5
    sd = np.sqrt(np.diag(S))
    t_big = sd * 1e7 * rng.choice([-1.0, 1.0], d)
    for name, Y, fmu, fS in (
            ("identity", X, lambda m: m, lambda C: C),
            ("translation-far", X + t_big, lambda m: m + t_big, lambda C: C),
            ("scaling", X * s, lambda m: m * s, lambda C: C * np.outer(s, s)),
            ("translation", X + t, lambda m: m + t, lambda C: C),
            ("permutation", X[:, p], lambda m: m[p], lambda C: C[np.ix_(p, p)])):
        try:
            # every fit of a pair runs under another ambient state of the global random stream: the estimate is a function
            # of the data, not of the stream
            np.random.seed(int(rng.integers(2 ** 31)))
            mu2, S2, nu2 = fit(Y)
        except Exception as e:
            bad.append((f"fit-exception-{name}", f"fit raised {e} on the {name}-transformed data"))
            continue
        S2 = np.asarray(S2).reshape(d, d)
        emu, eS = fmu(mu), fS(S)
        esd = np.sqrt(np.diag(eS))
        dm = rel(np.asarray(mu2), emu, esd)
        dS = rel(S2, eS, np.outer(esd, esd))
        if dm > 1e-4 or dS > 1e-4 or not nu_close(nu, nu2):
            bad.append((f"equivariance-{name}", f"{name}: location differs by {dm:.3g} sd, scale by {dS:.3g} (relative), nu {nu!r} vs {nu2!r} on {desc}"))
    return bad, float(nu)


def check_modes(rng, X, desc):
    """ModeStatistics.from_particles/from_global never hand a non-finite nu to the kernel."""
    from tempest.modes import ModeStatistics
    bad = []
    n, d = X.shape
    U = 1 / (1 + np.exp(-(X - X.mean(0)) / (X.std(0) + 1e-12)))
    w = rng.dirichlet(np.ones(n))
    labels = (U[:, 0] > np.median(U[:, 0])).astype(int) if n >= 16 * d else np.zeros(n, int)
    np.random.seed(int(rng.integers(2 ** 31)))
    import inspect
    has_n_modes = "n_modes" in inspect.signature(ModeStatistics.from_particles).parameters
    calls = [("from_global", lambda: ModeStatistics.from_global(U, w), None),
             ("from_particles", lambda: ModeStatistics.from_particles(U, w, labels), labels)]
    if has_n_modes:
        # label space larger than the labels that occur: several empty labels and one owned by a single particle
        lab2 = labels.copy() * 2                      # occurring labels 0 and 2; 1, 3, 4 empty
        if n > 8:
            lab2[int(rng.integers(n))] = 4            # label 4 owned by one particle (degenerate)
        calls.append(("from_particles(n_modes=6)", lambda: ModeStatistics.from_particles(U, w, lab2, n_modes=6), lab2))
    if has_n_modes and n >= 16 * d:
        # one label carries 1e-17 .. 1e-250 of the total weight (stale particles of early iterations next to the current ones): it is
        # still a healthy cluster of its own and its mode must describe ITS particles
        w5 = w.copy()
        w5[labels == 1] *= 10.0 ** (-float(rng.uniform(17, 250)))
        if np.sum(w5[labels == 1]) > 0:
            calls.append(("from_particles(n_modes=2, one label with a vanishing share of the weight)", lambda: ModeStatistics.from_particles(U, w5, labels, n_modes=2), labels))
    if has_n_modes and d >= 2 and n >= 16 * d:
        # the first coordinate takes only d (or fewer) different values (a discrete / quantised parameter); the labels separate the
        # particles along another coordinate.  Every label is a healthy cluster and its mode must describe ITS particles; moving the
        # discrete coordinate to another position must not change which statistics a label gets.
        Uq = U.copy()
        Uq[:, 0] = 0.25 + 0.5 * (np.arange(n) % 2)          # two values, both present in every label
        labq = (U[:, 1] > np.median(U[:, 1])).astype(int)
        calls.append(("from_particles(n_modes=2, first coordinate quantised)", lambda: ModeStatistics.from_particles(Uq, w, labq, n_modes=2), labq))
        perm = np.roll(np.arange(d), 1)
        sdq = int(rng.integers(2 ** 31))
        try:
            with contextlib.redirect_stdout(io.StringIO()), np.errstate(all="ignore"):
                np.random.seed(sdq)
                mq = ModeStatistics.from_particles(Uq, w, labq, n_modes=2)
                np.random.seed(sdq)
                mp_ = ModeStatistics.from_particles(Uq[:, perm], w, labq, n_modes=2)
            for k in range(2):
                sdk = np.sqrt(np.diag(mq.covariances[k]))
                dmq = float(np.max(np.abs(mp_.means[k] - mq.means[k][perm]) / sdk[perm]))
                dCq = float(np.max(np.abs(mp_.covariances[k] - mq.covariances[k][np.ix_(perm, perm)]) / np.outer(sdk[perm], sdk[perm])))
                if dmq > 1e-6 or dCq > 1e-6:
                    bad.append(("modes-not-equivariant", f"mode {k}: a cyclic permutation of the coordinates (one of them quantised) changes the mode: location by {dmq:.3g} sd, "
                                f"scale matrix by {dCq:.3g} (relative) on {desc}"))
                    break
        except Exception as e:
            bad.append(("modes-exception-permuted", f"from_particles raised {type(e).__name__}: {e} on coordinate-permuted particles ({desc})"))
    lo_all, hi_all = U.min(0), U.max(0)
    for nm, f, labs in calls:
        try:
            with contextlib.redirect_stdout(io.StringIO()), np.errstate(all="ignore"):
                ms = f()
        except Exception as e:
            bad.append((f"modes-exception-{nm}", f"{nm} raised {type(e).__name__}: {e} on {desc}"))
            continue
        dof = np.asarray(ms.degrees_of_freedom)
        if np.any(~np.isfinite(dof)) or np.any(dof <= 0):
            bad.append(("modes-dof", f"{nm} passes degrees of freedom {dof} to the kernel"))
        if not (np.all(np.isfinite(ms.means)) and np.all(np.isfinite(ms.chol_covariances)) and np.all(np.isfinite(ms.inv_covariances))):
            bad.append(("modes-nonfinite", f"{nm} produced non-finite mean / cholesky / inverse"))
            continue
        for k in range(ms.K):
            m = ms.means[k]
            Udata = Uq if "quantised" in nm else U
            own = Udata[labs == k] if labs is not None else Udata
            box = (own.min(0), own.max(0)) if (labs is not None and len(np.unique(own, axis=0)) > d) else (lo_all, hi_all)
            tolb = 1e-9 * (1 + np.abs(box[1] - box[0]))
            if np.any(m < box[0] - tolb) or np.any(m > box[1] + tolb):
                bad.append(("modes-location-outside", f"{nm}: mode {k} location {m} outside the bounding box of the particles it describes"))
            C = ms.covariances[k]
            if not np.allclose(C, C.T, rtol=1e-12, atol=0) or np.linalg.eigvalsh(0.5 * (C + C.T)).min() <= 0:
                bad.append(("modes-scale-not-spd", f"{nm}: mode {k} scale matrix not symmetric positive definite"))
                continue
            kap = np.linalg.cond(C)
            e1 = np.max(np.abs(ms.chol_covariances[k] @ ms.chol_covariances[k].T - C)) / np.max(np.abs(C))
            e2 = np.max(np.abs(ms.inv_covariances[k] @ C - np.eye(d)))
            if e1 > 1e-10 or e2 > 1e-9 * kap:
                bad.append(("modes-factors-inconsistent", f"{nm}: mode {k}: Cholesky factor / inverse are not those of the scale matrix "
                            f"(|LL^T-C|/|C| = {e1:.3g}, |C^-1 C - I| = {e2:.3g}, cond {kap:.3g})"))
    # the same particles squeezed into a tiny part of the cube (a posterior far narrower than the prior): under the same
    # random stream every mode must be the squeezed image of the mode fitted on the unsqueezed particles
    nsq = 0
    for trial in range(2):
        sc = 10 ** rng.uniform(-9.5, 0, d) if trial == 0 else np.full(d, 10 ** rng.uniform(-9.5, -3))
        off = rng.uniform(0, 1 - sc) * (sc >= 1e-7)
        U2 = off + sc * U
        labs = lab2 if has_n_modes else labels
        kw = dict(n_modes=6) if has_n_modes else {}
        same_mult = all(len(np.unique(U2[labs == v], axis=0)) == len(np.unique(U[labs == v], axis=0)) for v in np.unique(labs))
        if not same_mult:
            continue
        sd = int(rng.integers(2 ** 31))
        try:
            with contextlib.redirect_stdout(io.StringIO()), np.errstate(all="ignore"):
                np.random.seed(sd)
                m1 = ModeStatistics.from_particles(U, w, labs, **kw)
                np.random.seed(sd)
                m2 = ModeStatistics.from_particles(U2, w, labs, **kw)
        except Exception as e:
            bad.append(("modes-exception-squeezed", f"from_particles raised {type(e).__name__}: {e} on particles squeezed by {sc} ({desc})"))
            continue
        nsq += 1
        for k in range(min(m1.K, m2.K)):
            sdk = np.sqrt(np.diag(m1.covariances[k]))
            dm = float(np.max(np.abs((m2.means[k] - off) / sc - m1.means[k]) / sdk))
            dC = float(np.max(np.abs(m2.covariances[k] / np.outer(sc, sc) - m1.covariances[k]) / np.outer(sdk, sdk)))
            n1, n2 = float(m1.degrees_of_freedom[k]), float(m2.degrees_of_freedom[k])
            tol = 1e-4 + 1e-15 / float(sc.min()) * 1e3
            if m1.K != m2.K or dm > tol or dC > tol or abs(n1 - n2) > 1e-4 * max(n1, n2):
                bad.append(("modes-not-equivariant", f"mode {k}: particles squeezed per coordinate by {sc} (offset {off}) give a mode whose location differs by "
                            f"{dm:.3g} sd and whose scale matrix differs by {dC:.3g} (relative) from the squeezed image; nu {n1!r} vs {n2!r} on {desc}"))
                break
    desc["squeezed"] = nsq
    # the CONFIGURED fallback reaches the kernel on every path: ordinary labels, empty / singleton labels, and small labels whose
    # weight sits on one particle (their weighted resample collapses and all particles are used instead)
    fb = float(rng.choice([2.5, 7.77, 40.0]))
    lab3 = np.zeros(n, int)
    k_small = min(n - 1, d + 1 + int(rng.integers(0, 3)))
    small = rng.choice(n, size=k_small, replace=False)
    lab3[small] = 1
    w3 = rng.dirichlet(np.ones(n))
    w3[small] *= 1e-9
    w3[small[0]] = 0.02                       # one particle carries all but 1e-7 of the small label's weight
    w3 /= w3.sum()
    calls3 = [("from_global(dof_fallback)", lambda: ModeStatistics.from_global(U, w, dof_fallback=fb)),
              ("from_particles(dof_fallback)", lambda: ModeStatistics.from_particles(U, w, labels, dof_fallback=fb))]
    if has_n_modes:
        calls3 += [("from_particles(n_modes, empty labels, dof_fallback)", lambda: ModeStatistics.from_particles(U, w, lab2, dof_fallback=fb, n_modes=6))]
        if n - k_small >= 4 * d + 8:        # (the rest of the pool must be a healthy label, or the whole pool is degenerate)
            calls3 += [("from_particles(n_modes, one-particle-dominated small label, dof_fallback)", lambda: ModeStatistics.from_particles(U, w3, lab3, dof_fallback=fb, n_modes=2))]
    for nm, f in calls3:
        try:
            with contextlib.redirect_stdout(io.StringIO()), np.errstate(all="ignore"):
                ms = f()
        except Exception as e:
            bad.append((f"modes-exception-{nm}", f"{nm} raised {type(e).__name__}: {e} on {desc}"))
            continue
        dof = np.asarray(ms.degrees_of_freedom, float)
        # a mode carries either the configured fallback or a finite fitted value; the library's built-in default (1e6) can only
        # appear if it was configured
        wrong = [float(v) for v in dof if not np.isfinite(v) or v <= 0 or (v == 1e6 and fb != 1e6)]
        if wrong:
            bad.append(("modes-fallback-not-configured", f"{nm} with dof_fallback={fb}: degrees of freedom {dof.tolist()} (a non-finite estimate must be replaced by the "
                        f"configured fallback, not by a built-in default)"))
        desc["fallback_calls"] = desc.get("fallback_calls", 0) + 1
    return bad


def recovery(seed, nu, d, n):
    rng = np.random.default_rng(seed)
    A = rng.standard_normal((d, d)) * 0.4 + np.eye(d)
    Sig = A @ A.T
    loc = rng.standard_normal(d) * 3
    g = rng.chisquare(nu, n) / nu
    X = loc + (rng.standard_normal((n, d)) / np.sqrt(g)[:, None]) @ A.T
    mu, S, nuh = fit(X)
    S = np.asarray(S).reshape(d, d)
    bad = []
    sd = np.sqrt(np.diag(Sig))
    rs = float(np.max(np.abs(S - Sig) / np.outer(sd, sd)))
    if np.isinf(nuh):
        # mechanism: the nu root search declares "no finite root" for heavy-tailed data
        bad.append(("nu-estimate-infinite", f"true nu={nu}, d={d}, n={n}: fitted nu=inf (scale matrix off by {rs:.3g})"))
        # with nu=inf the routine returns its Gaussian start; a *different* scale defect must still show
        Sg = np.atleast_2d(np.cov(X.T)) * (n - 1) / n + np.diag(np.var(X, axis=0)) / n
        if not np.allclose(S, Sg, rtol=1e-9, atol=0):
            bad.append(("recovery-scale", f"nu=inf but the scale matrix is not the Gaussian moment estimate (max rel {np.max(np.abs(S / Sg - 1)):.3g})"))
    else:
        if not (abs(nuh - nu) <= 0.25 * nu):
            bad.append(("recovery-dof", f"true nu={nu}, d={d}, n={n}: fitted nu={nuh!r}"))
        if rs > 0.10:
            bad.append(("recovery-scale", f"true nu={nu}: scale matrix off by {rs:.3g} (relative)"))
    se = sd * np.sqrt((nu + 3) / (nu + 1) / n) * 1.2
    zl = float(np.max(np.abs(np.asarray(mu) - loc) / se))
    if zl > 5:
        bad.append(("recovery-location", f"true nu={nu}: location off by {zl:.2f} se"))
    return bad, float(nuh)


def big_case(seed, n, d, nu):
    """fit_mvstud on more than 2**20 rows (size thresholds, chunked or subsampled paths)."""
    rng = np.random.default_rng(seed)
    A = rng.standard_normal((d, d)) + 2 * np.eye(d)
    g = rng.chisquare(nu, n) / nu
    X = (rng.standard_normal((n, d)) / np.sqrt(g)[:, None]) @ A.T + rng.standard_normal(d)
    desc = dict(n=n, d=d, nu=nu, kind="t-big")
    bad, nuh = check_case(rng, X, desc)
    return bad, desc


def _batch(seed, start, count):
    os.environ["VERIF_SEED"] = str(seed)
    ck = Check("C19")
    res = []
    for i in range(start, start + count):
        rng = ck.rng("data", i)
        X, desc = gen_data(rng)
        try:
            bad, nu = check_case(rng, X, desc)
        except Exception:
            bad, nu = [("exception", fmt_exc())], None
        try:
            bad += check_modes(rng, X, desc)
        except Exception:
            bad.append(("exception-modes", fmt_exc()))
        res.append((i, desc, bad, nu))
    return res


def run():
    ck = Check("C19")
    n = ck.pick(300, 5000)
    per = ck.pick(10, 50)
    tasks = [("tvf.checks.c19:_batch", dict(seed=ck.seed, start=s, count=min(per, n - s)), None) for s in range(0, n, per)]
    finite_nu = 0
    for i, st, val in farm.run(tasks, timeout=1800, progress="C19"):
        if st != "ok":
            ck.inconc(f"batch {i}: {st} {str(val)[:300]}")
            continue
        for idx, desc, bad, nu in val:
            ck.case(desc, nontrivial=desc["kind"] != "gauss")
            ck.event("fit_mvstud well-posedness + 3 equivariance pairs")
            ck.event("ModeStatistics.from_global/from_particles checked", 3)
            ck.event("fits on the caller's own array in C / Fortran / strided layout / read-only (fitted twice)", desc.get("layouts", 0))
            ck.event("mode fits on particles squeezed into a tiny part of the cube compared with the squeezed image", desc.get("squeezed", 0))
            ck.event("mode-statistics calls with a configured dof fallback (all paths incl. collapsed small labels)", desc.get("fallback_calls", 0))
            if nu is not None and np.isfinite(nu):
                finite_nu += 1
            for key, what in bad:
                ck.violation(key, what, dict(stream=["data", idx], case=desc))
    ck.tables["fits_with_finite_nu"] = finite_nu
    # recovery of generating parameters
    rec = []
    reps = ck.pick(2, 8)
    for nu in (3.0, 5.0, 10.0):
        for d in (1, 2, 4):
            for r in range(reps):
                rec.append(("tvf.checks.c19:recovery", dict(seed=ck.subseed("rec", nu, d, r), nu=nu, d=d, n=20000), None))
    out = {}
    for i, st, val in farm.run(rec, timeout=600, progress="C19-recovery"):
        kw = rec[i][1]
        if st != "ok":
            ck.violation("recovery-exception", f"recovery fit failed: {str(val)[-300:]}", kw)
            continue
        bad, nuh = val
        ck.case(dict(recovery=dict(nu=kw["nu"], d=kw["d"])))
        ck.event("recovery on 2e4 multivariate-t samples")
        out.setdefault(f"nu={kw['nu']},d={kw['d']}", []).append(round(nuh, 3) if np.isfinite(nuh) else "inf")
        for key, what in bad:
            ck.violation(key, what, kw)
    ck.tables["recovered_nu"] = out
    ck.require_events("fit_mvstud well-posedness + 3 equivariance pairs", "recovery on 2e4 multivariate-t samples",
                      "mode fits on particles squeezed into a tiny part of the cube compared with the squeezed image")
    btasks = [("tvf.checks.c19:big_case", dict(seed=ck.subseed("big", j), n=n_, d=d_, nu=nu_), None)
              for j, (n_, d_, nu_) in enumerate(ck.pick([(2 ** 20 + 4097, 2, 3.0)], [(2 ** 20 + 4097, 2, 3.0), (2 ** 21 + 1, 3, 5.0), (2 ** 20 + 1, 1, 2.0), (3_000_001, 2, 30.0)]))]
    for i, st, val in farm.run(btasks, timeout=1500, progress="C19-big"):
        kw = btasks[i][1]
        if st != "ok":
            ck.inconc(f"big case {kw}: {st} {str(val)[:300]}")
            continue
        bad, desc = val
        ck.case(desc, nontrivial=True)
        ck.event("fits on more than 2**20 rows with 5 equivariance pairs")
        for key, what in bad:
            ck.violation(key, what, dict(big=kw))
    ck.require_events("fits on more than 2**20 rows with 5 equivariance pairs")
    return ck.finish(
        rule="data sets from VERIF_SEED: d 1..8, n >= 4d (up to 1500), Gaussian / multivariate-t (nu 1.5..30) / skewed / 5%-contaminated / "
             "uniform / rho=0.95; equivariance pairs under per-coordinate scaling 1e-6..1e6, translation, coordinate permutation (rtol 1e-4); "
             "recovery cells nu in {3,5,10} x d in {1,2,4} on 2e4 true multivariate-t samples; non-trivial = non-Gaussian data (fits with finite nu are counted in tables.fits_with_finite_nu)",
        assumptions=["equivariance tolerance 1e-4 relative to the fitted scale; recovery bands nu +-25%, scale +-10%, location 5 se"],
    )


def replay(rec):
    os.environ["VERIF_SEED"] = str(rec["seed"])
    w = rec["witness"] or {}
    if "stream" in w:
        r = _batch(rec["seed"], w["stream"][1], 1)
        print(r[0][2] or "held")
        return 1 if r[0][2] else 0
    if "big" in w:
        bad, desc = big_case(**w["big"])
        print(bad or "held")
        return 1 if bad else 0
    if "nu" in w:
        bad, nuh = recovery(**w)
        print(bad or "held", nuh)
        return 1 if bad else 0
    return 2

"""C17 - accessors never alias internal state; committed history is append-only.

(i) history + executable reference model: random operation sequences on a real
    StateManager and on oracles.RefState; a hostile caller overwrites every array it is
    handed (returned values, and arrays it passed in with copy=True); after every
    operation the manager's public answers must equal the reference model.
(ii) sampler level: twin runs under one seed - one with a hostile caller scribbling on
    everything returned by sample()/results()/posterior()/state.to_dict()/get_*() after
    each iteration, one untouched - must produce bit-identical histories and results.
"""
from __future__ import annotations

import os

import numpy as np

from tvf import farm
from tvf.env import Check, fmt_exc, digest
from tvf.oracles import RefState

ARR_KEYS = ("u", "x", "logl", "blobs", "assignments")
SCALARS = ("acceptance", "steps", "efficiency", "ess", "beta", "logz", "calls", "iter")


def scribble(obj, seen=None, depth=0):
    """Overwrite every numpy array reachable from obj.  Returns number of arrays hit."""
    if seen is None:
        seen = set()
    n = 0
    if id(obj) in seen or depth > 6:
        return 0
    seen.add(id(obj))
    if isinstance(obj, np.ndarray):
        if not obj.flags.writeable:
            try:
                obj.setflags(write=True)     # a hostile caller re-enables writing on what it was handed
            except ValueError:
                pass
        if obj.dtype.kind in "fc":
            try:
                obj[...] = -7.25e77
                n += 1
            except ValueError:
                pass
        elif obj.dtype.kind in "iu":
            try:
                obj[...] = -77
                n += 1
            except ValueError:
                pass
        elif obj.dtype == object:
            for v in obj.ravel():
                n += scribble(v, seen, depth + 1)
    elif isinstance(obj, dict):
        for v in obj.values():
            n += scribble(v, seen, depth + 1)
    elif isinstance(obj, (list, tuple)):
        for v in obj:
            n += scribble(v, seen, depth + 1)
    return n


def arrays_in(obj, out=None, depth=0):
    if out is None:
        out = []
    if isinstance(obj, np.ndarray):
        if obj.dtype == object and depth < 6:
            for v in obj.ravel():
                arrays_in(v, out, depth + 1)
        else:
            out.append(obj)
    elif isinstance(obj, dict) and depth < 6:
        for v in obj.values():
            arrays_in(v, out, depth + 1)
    elif isinstance(obj, (list, tuple)) and depth < 6:
        for v in obj:
            arrays_in(v, out, depth + 1)
    return out


def internal_arrays(sm):
    out = []
    for attr in ("_current", "_history", "_results_dict"):
        arrays_in(getattr(sm, attr, None), out)
    return out


def aliases(ret, sm):
    ia = internal_arrays(sm)
    for a in arrays_in(ret):
        for b in ia:
            if a.size and b.size and np.shares_memory(a, b):
                return True
    return False


def compare(sm, ref):
    """Public answers of the real manager vs the reference model."""
    for k in RefState.CUR:
        if not RefState.same(sm.get_current(k), ref.cur[k]):
            return f"get_current('{k}') = {str(sm.get_current(k))[:80]} but reference has {str(ref.cur[k])[:80]}"
    allc = sm.get_current()
    for k in RefState.CUR:
        if not RefState.same(allc[k], ref.cur[k]):
            return f"get_current()['{k}'] differs from reference"
    for k in RefState.HIST:
        L = len(ref.hist[k])
        for i in range(L):
            if not RefState.same(sm.get_history(k, index=i), ref.hist[k][i]):
                return f"history['{k}'][{i}] = {str(sm.get_history(k, index=i))[:80]} but reference has {str(ref.hist[k][i])[:80]}"
        try:
            sm.get_history(k, index=L)
            return f"history['{k}'] is longer than the reference ({L})"
        except IndexError:
            pass
        last = sm.get_last_history(k)
        if not RefState.same(last, ref.hist[k][-1] if L else None):
            return f"get_last_history('{k}') differs from reference"
    if sm.get_history_length() != len(ref.hist["beta"]):
        return f"get_history_length()={sm.get_history_length()} reference {len(ref.hist['beta'])}"
    return None


def rand_value(rng, k, n, d):
    if k in ("u", "x"):
        return rng.random((n, d))
    if k in ("logl", "blobs"):
        return -rng.random(n)
    if k == "assignments":
        return rng.integers(0, 3, n)
    if k in ("steps", "calls", "iter"):
        return int(rng.integers(0, 1000))
    r = rng.random()
    if r < 0.25:
        return np.array(float(rng.random()))          # 0-d array: mutable, must be copied like any other array
    if r < 0.35:
        return np.float64(rng.random())
    return float(rng.random())


BASES = []       # caller-owned writable buffers behind read-only views handed to the library (overwritten later)


def readonly_view(v):
    """The caller keeps ownership of the memory and hands over a read-only view (e.g. the output buffer of a compiled model)."""
    if isinstance(v, np.ndarray) and v.ndim >= 1:
        base = v.copy()
        ro = base.view()
        ro.setflags(write=False)
        BASES.append(base)
        return ro
    return v


def scribble_bases():
    n = 0
    for b in BASES:
        n += scribble(b)
    BASES.clear()
    return n


def run_sequence(rng, n_ops):
    """Returns (violations, op_counts)."""
    from tempest.state_manager import StateManager
    import tempfile
    d = int(rng.integers(1, 4))
    n = int(rng.integers(1, 6))
    ragged = bool(rng.random() < 0.3)       # batches of different length (e.g. a run resumed with another n_particles)
    sm = StateManager(d)
    ref = RefState()
    bad = []
    ops = []
    counts = {}

    def note(op):
        counts[op] = counts.get(op, 0) + 1
        ops.append(op)

    held = []       # (operation, object, digest when it was returned): results the caller keeps WITHOUT touching them

    def hand_back(r, name):
        """The caller either overwrites what it was handed (hostile) or keeps it and looks at it again later: in the second
        case it must still be what was returned, whatever the library has done in between."""
        if rng.random() < 0.35:
            held.append((name, r, digest(r)))
            counts["result kept by the caller and re-read later"] = counts.get("result kept by the caller and re-read later", 0) + 1
        else:
            scribble(r)

    for step in range(n_ops):
        op = str(rng.choice(["set", "set", "update", "commit", "commit", "get_current", "get_current_all", "get_history_idx",
                             "get_history_flat", "get_history_all", "get_last", "to_dict", "results", "roundtrip_dict",
                             "update_from_dict", "save_load", "save_exclude", "logw", "commit_strict", "unset", "partial_dict"]))
        try:
            if ragged and op in ("set", "update") and rng.random() < 0.5:
                n = int(rng.integers(1, 6))
            if op == "set":
                k = str(rng.choice(RefState.CUR))
                v = rand_value(rng, k, n, d)
                cp = bool(rng.random() < 0.7)
                if cp and rng.random() < 0.3:
                    v = readonly_view(v)
                    counts["read-only input"] = counts.get("read-only input", 0) + 1
                sm.set_current(k, v, copy=cp)
                ref.set(k, v)
                if cp:
                    scribble_bases()     # caller reuses the memory behind a read-only view
                    scribble(v)          # caller reuses its buffer
                note("set(copy=%s)" % cp)
            elif op == "update":
                ks = [str(k) for k in rng.choice(RefState.CUR, size=int(rng.integers(1, 5)), replace=False)]
                dd = {k: rand_value(rng, k, n, d) for k in ks}
                cp = bool(rng.random() < 0.7)
                if cp and rng.random() < 0.3:
                    dd = {k: readonly_view(v) for k, v in dd.items()}
                    counts["read-only input"] = counts.get("read-only input", 0) + 1
                sm.update_current(dd, copy=cp)
                for k, v in dd.items():
                    ref.set(k, v)
                if cp:
                    scribble_bases()
                    scribble(dd)
                note("update(copy=%s)" % cp)
            elif op == "commit":
                before = {k: len(ref.hist[k]) for k in RefState.HIST}
                sm.commit_current_to_history()
                ref.commit()
                note("commit")
            elif op == "unset":
                # the caller clears one quantity of the current state (e.g. before refilling it)
                k = str(rng.choice(["beta", "logl", "logz", "u", "x"]))
                sm.set_current(k, None)
                ref.set(k, None)
                note("unset")
            elif op == "commit_strict":
                # strict commits are refused while beta or logl is missing; a refused commit must leave no trace
                ok = ref.cur.get("beta") is not None and ref.cur.get("logl") is not None
                try:
                    sm.commit_current_to_history(strict=True)
                    if not ok:
                        bad.append(("strict-commit-accepted", "commit_current_to_history(strict=True) succeeded although beta or logl is None"))
                    ref.commit()
                    note("commit_strict")
                except ValueError:
                    if ok:
                        raise
                    note("commit_strict:refused")
            elif op == "get_current":
                k = str(rng.choice(RefState.CUR))
                r = sm.get_current(k)
                if aliases(r, sm):
                    bad.append(("alias-get_current", f"get_current('{k}') shares memory with internal state"))
                hand_back(r, f"get_current('{k}')")
                note(op)
            elif op == "get_current_all":
                r = sm.get_current()
                if aliases(r, sm):
                    bad.append(("alias-get_current", "get_current() shares memory with internal state"))
                scribble(r)
                note(op)
            elif op == "get_history_idx":
                k = str(rng.choice(RefState.HIST))
                L = len(ref.hist[k])
                if L:
                    r = sm.get_history(k, index=int(rng.integers(L)), flat=bool(rng.random() < 0.4))      # every argument combination the signature allows
                    if aliases(r, sm):
                        bad.append(("alias-get_history", f"get_history('{k}', index) shares memory with internal state"))
                    hand_back(r, f"get_history('{k}', index)")
                    note(op)
            elif op in ("get_history_flat", "get_history_all"):
                k = str(rng.choice(["u", "x", "logl", "blobs"] if op == "get_history_flat" else RefState.HIST))
                if len(ref.hist[k]):
                    try:
                        exp = np.concatenate(ref.hist[k]) if op == "get_history_flat" else np.array(ref.hist[k])
                    except ValueError:
                        exp = None          # ragged batches cannot be stacked
                    try:
                        r = sm.get_history(k, flat=(op == "get_history_flat"))
                    except ValueError:
                        if exp is None:
                            note(op + ":ragged-raises")
                            continue
                        raise
                    if exp is None:
                        # the library chose to return something for a ragged history: it must still be a private copy
                        note(op + ":ragged-returns")
                        if aliases(r, sm):
                            bad.append(("alias-get_history", f"get_history('{k}') of a ragged history hands out the internal batches"))
                        scribble(r)
                        msg = compare(sm, ref)
                        if msg:
                            bad.append((f"diverged-after-{op}", f"after overwriting what get_history('{k}') returned for a ragged history: {msg}"))
                            break
                        continue
                    if not RefState.same(np.asarray(r), exp):
                        bad.append(("history-content", f"get_history('{k}', flat={op == 'get_history_flat'}) differs from reference"))
                    if aliases(r, sm):
                        bad.append(("alias-get_history", f"get_history('{k}', flat/all) shares memory with internal state"))
                    hand_back(r, f"get_history('{k}', flat/all)")
                    note(op)
            elif op == "get_last":
                k = str(rng.choice(RefState.HIST))
                form = int(rng.integers(3))
                dflt = np.full(3, -7.0)
                # with and without the optional fallback value (returned only while nothing has been committed)
                r = sm.get_last_history(k) if form == 0 else sm.get_last_history(k, dflt) if form == 1 else sm.get_last_history(k, default=dflt)
                if form and len(ref.hist[k]) == 0 and not (isinstance(r, np.ndarray) and np.array_equal(r, np.full(3, -7.0))):
                    bad.append(("get-last-default", f"get_last_history('{k}', default) on an empty history returned {r!r}"))
                if form and len(ref.hist[k]) and not RefState.same(np.asarray(r), ref.hist[k][-1]):
                    bad.append(("history-content", f"get_last_history('{k}', default) differs from the last committed value"))
                if aliases(r, sm):
                    bad.append(("alias-get_last_history", f"get_last_history('{k}') shares memory with internal state"))
                hand_back(r, f"get_last_history('{k}')")
                note(op)
            elif op == "to_dict":
                r = sm.to_dict()
                if aliases(r, sm):
                    bad.append(("alias-to_dict", "an array inside to_dict() shares memory with internal state"))
                # a hostile caller also appends to / clears the exported containers
                for v in r.get("_history", {}).values():
                    if isinstance(v, list):
                        v.append("junk")
                r.get("_current", {})["beta"] = "junk"
                scribble(r)
                note(op)
            elif op == "results":
                consistent = len(ref.hist["beta"]) == 0 or (len(ref.hist["logl"]) == len(ref.hist["beta"]) == len(ref.hist["logz"]))
                if not consistent:
                    continue     # lenient commits left logl/beta/logz of unequal length: weights undefined, not this property
                try:
                    r = sm.compute_results()
                except ValueError:
                    note("results:ragged-raises")      # ragged batches: the unchanged library cannot stack them
                    continue
                exp_lw = sm.compute_logw_and_logz(1.0)[0] if len(ref.hist["beta"]) else None
                if aliases(r, sm):
                    bad.append(("alias-results", "an array inside compute_results() shares memory with internal state (cache)"))
                scribble(r)
                r["junk"] = 1
                r2 = sm.compute_results()
                if "junk" in r2:
                    bad.append(("alias-results", "compute_results() hands out its cached dictionary: a key added by the caller is visible in the next call"))
                for k in RefState.HIST:
                    if len(ref.hist[k]) and k in r2:
                        try:
                            exp = np.array(ref.hist[k])
                        except ValueError:
                            continue
                        if not RefState.same(np.asarray(r2[k]), exp):
                            bad.append(("alias-results", f"compute_results()['{k}'] changed after the caller overwrote the previously returned array"))
                            break
                if exp_lw is not None and "logw" in r2 and not RefState.same(np.asarray(r2["logw"]), exp_lw):
                    bad.append(("alias-results", "compute_results()['logw'] changed after the caller overwrote the previously returned array"))
                note(op)
            elif op == "roundtrip_dict":
                dd = sm.to_dict()
                sm2 = StateManager.from_dict(dd)
                msg = compare(sm2, ref)
                if msg:
                    bad.append(("roundtrip", "from_dict(to_dict()) : " + msg))
                note(op)
            elif op == "partial_dict":
                # a manager (re)built from a dictionary that carries only part of the recorded quantities (documented usage):
                # the quantities it does not mention start empty and independent of each other
                keep = [k for k in RefState.HIST if rng.random() < 0.5]
                dd = {"_current": {k: RefState.cp(v) for k, v in ref.cur.items() if rng.random() < 0.7},
                      "_history": {k: [RefState.cp(a) for a in ref.hist[k]] for k in keep}, "n_dim": d}
                if rng.random() < 0.5:
                    sm = StateManager.from_dict(dd)
                    for k in RefState.CUR:
                        if k not in dd["_current"]:
                            ref.cur[k] = None
                    for k in RefState.HIST:
                        if k not in keep:
                            ref.hist[k] = []
                    note("partial_dict:from_dict")
                else:
                    sm.update_from_dict(dd)          # merges: quantities not mentioned keep what they had
                    note("partial_dict:update_from_dict")
            elif op == "update_from_dict":
                # donate a private deep copy of the reference content
                dd = {"_current": {k: RefState.cp(v) for k, v in ref.cur.items()},
                      "_history": {k: [RefState.cp(a) for a in v] for k, v in ref.hist.items()}, "n_dim": d}
                sm.update_from_dict(dd)
                note(op)
            elif op == "save_load":
                with tempfile.TemporaryDirectory(dir=os.environ.get("TVF_TMP")) as td:
                    p = os.path.join(td, "s.pkl")
                    import contextlib, io
                    with contextlib.redirect_stdout(io.StringIO()):
                        sm.save_state(p)
                    sm3 = StateManager(d)
                    sm3.load_state(p)
                    msg = compare(sm3, ref)
                    if msg:
                        bad.append(("save-load", "load_state(save_state()) : " + msg))
                note(op)
            elif op == "save_exclude":
                # an export with the optional `exclude` list (names of things to leave out of the FILE): whatever the list names, the
                # live manager is what it was (the comparison with the reference model after this operation decides)
                with tempfile.TemporaryDirectory(dir=os.environ.get("TVF_TMP")) as td:
                    p = os.path.join(td, "s.pkl")
                    import contextlib, io
                    excl = [["pbar", "pool"], ["u"], ["blobs", "logl"], ["n_dim"], ["_history"], [], ["x", "beta", "logz"], ["_current"]][int(rng.integers(8))]
                    try:
                        with contextlib.redirect_stdout(io.StringIO()):
                            sm.save_state(p, exclude=list(excl))
                    except Exception as e:
                        bad.append(("save-exclude-raises", f"save_state(path, exclude={excl}) raised {type(e).__name__}: {e}"))
                note(op)
            elif op == "logw":
                if len(ref.hist["beta"]) and len(ref.hist["logl"]) == len(ref.hist["beta"]) == len(ref.hist["logz"]):
                    nrm = bool(rng.random() < 0.5)
                    lw, lz = sm.compute_logw_and_logz(float(rng.random()), normalize=nrm)
                    if aliases(lw, sm):
                        bad.append(("alias-logw", "compute_logw_and_logz returns an array aliasing internal state"))
                    # a second request at another temperature while the caller still holds the first answer
                    dg1 = digest(lw)
                    lw2, lz2 = sm.compute_logw_and_logz(float(rng.random()), normalize=nrm)
                    if digest(lw) != dg1:
                        bad.append(("returned-array-changed-later", f"the log-weights returned by compute_logw_and_logz(normalize={nrm}) changed when the manager "
                                    "answered the next request"))
                    if np.shares_memory(lw, lw2):
                        bad.append(("alias-logw", "two calls of compute_logw_and_logz return arrays that share memory"))
                    hand_back(lw, f"compute_logw_and_logz(normalize={nrm})")
                    scribble(lw2)
                    note(op)
        except Exception:
            bad.append((f"exception-{op}", f"operation {op} raised: " + fmt_exc()[-400:]))
            break
        msg = compare(sm, ref)
        if msg:
            bad.append((f"diverged-after-{op}", f"after op #{step} ({op}; previous ops {ops[-6:]}): {msg}"))
            break
        changed = [nm for nm, obj, dg in held if digest(obj) != dg]
        if changed:
            bad.append(("returned-array-changed-later", f"what {changed[0]} returned changed while the caller merely kept it (after op #{step}: {op}): it shares "
                        f"memory with something the library writes to"))
            break
    return bad, counts


def _seq_batch(seed, start, count, n_ops):
    os.environ["VERIF_SEED"] = str(seed)
    ck = Check("C17")
    res = []
    for i in range(start, start + count):
        rng = ck.rng("seq", i)
        try:
            bad, counts = run_sequence(rng, n_ops)
        except Exception:
            bad, counts = [("exception", fmt_exc())], {}
        res.append((i, bad, counts))
    return res


# ------------------------------------------------------------------ sampler-level twin runs
def hostile_run(cfg, hostile, n_iter):
    from tvf import runs
    c = runs.full(cfg)
    np.random.seed(c["seed"])
    s, t, like, pt = runs.build(c)
    s._core._initialize_fresh()
    hit = 0
    ret_alias = []
    snaps = []
    from tvf.tap import Tap
    tap = Tap(cap=400000)      # logical bound: a run corrupted through an alias spins in the redraw loop
    tap.__enter__()
    try:
        return _hostile_loop(s, runs, hostile, n_iter, hit, ret_alias, snaps)
    finally:
        tap.__exit__()


HKEYS = ("u", "x", "logl", "iter", "logz", "calls", "steps", "efficiency", "ess", "acceptance", "beta")


def _hostile_loop(s, runs, hostile, n_iter, hit, ret_alias, snaps):
    batch_dg = []          # digest of every committed batch, taken right after its commit
    append_bad = []
    for it in range(n_iter):
        st = s.sample()
        # append-only: exactly one new batch per recorded quantity, earlier batches bit-identical
        sm = s.state
        n = sm.get_history_length()
        if n != it + 1:
            append_bad.append(f"history length {n} after {it + 1} iterations")
        keys = list(HKEYS) + (["blobs"] if len(sm._history.get("blobs", [])) else [])
        lens = {k: len(sm._history[k]) for k in keys} if hasattr(sm, "_history") else {}
        if lens and len(set(lens.values())) != 1:
            append_bad.append(f"recorded quantities out of step after iteration {it + 1}: {lens}")
        cur = [digest([sm.get_history(k, index=i) for k in keys if i < lens.get(k, n)]) for i in range(n)]
        for i, d0 in enumerate(batch_dg):
            if i < len(cur) and cur[i] != d0 and not hostile:
                append_bad.append(f"iteration {it + 1} altered the batch committed by iteration {i + 1}")
                break
        batch_dg = cur
        got = dict(sample=st, results=s.results(), to_dict=s.state.to_dict(), current=s.state.get_current(),
                   hist_u=s.state.get_history("u"), hist_flat=s.state.get_history("logl", flat=True),
                   last=s.state.get_last_history("x"))
        if s.state.get_history_length() > 0:
            got["posterior"] = s.posterior(trim_importance_weights=bool(it % 2), return_logw=True)
            got["posterior_rs"] = s.posterior(resample=True)
        snaps.append(digest(runs.history(s)))
        if hostile:
            for name, obj in got.items():
                if aliases(obj, s.state):
                    ret_alias.append(name)
            hit += scribble(got)
    final = digest(runs.history(s))
    res = s.results()
    return dict(final=final, snaps=snaps, append_bad=append_bad[:3], results=digest({k: v for k, v in res.items()}), hit=hit,
                aliases=sorted(set(ret_alias)), n_hist=s.state.get_history_length(),
                post=digest(list(s.posterior(trim_importance_weights=False))))


def run_appendonly(cfg, resume):
    """A complete Sampler.run() (fresh, or resumed from a mid-run checkpoint) observed at the state manager's commit: every batch is
    digested the moment it is committed; after run() has returned, every recorded quantity must hold exactly those batches (nothing
    - an iteration or the code after the loop - may go back and rewrite a committed batch)."""
    import shutil
    from tvf import runs, attach
    from tempest.state_manager import StateManager
    from tvf.checks.c08 import tmpdir
    c = runs.full(cfg)
    bad = []
    committed = []        # list of {key: digest} per commit, in order
    tmp = tmpdir() if resume else None
    try:
        np.random.seed(c["seed"])
        if resume:
            c = dict(c, output_dir=tmp, output_label="ao")
            s0 = runs.build(c)[0]
            s0.run(n_total=c["n_total"], progress=runs.prog(c), save_every=2)
            files = sorted((f for f in os.listdir(tmp) if f.startswith("ao_") and "final" not in f), key=lambda f: int(f.split("_")[1].split(".")[0]))
        s, t, like, pt = runs.build(c)
        with attach.Hooks() as hk:
            def after_commit(ctx, r, self, *a, **k):
                if self is s.state:
                    committed.append({k2: digest(self._history[k2][-1]) for k2 in HKEYS + ("blobs",) if len(self._history.get(k2, []))})
            hk.wrap(StateManager, "commit_current_to_history", after=after_commit)
            attach.iteration_budget(hk, 400)
            if resume and files:
                s.run(n_total=2 * c["n_total"], progress=runs.prog(c), resume_state_path=os.path.join(tmp, files[len(files) // 2]))
            else:
                s.run(n_total=c["n_total"], progress=runs.prog(c))
        sm = s.state
        T = sm.get_history_length()
        first = T - len(committed)           # batches restored from the checkpoint came before the observed commits
        for j, rec in enumerate(committed):
            for k2, dg in rec.items():
                now = digest(sm._history[k2][first + j]) if first + j < len(sm._history[k2]) else None
                if now != dg:
                    bad.append(("history-not-append-only", f"the '{k2}' batch committed by iteration {first + j + 1} of {T} reads differently after run() returned "
                                f"(committed {np.asarray(sm.get_history(k2, index=first + j)).ravel()[:3]}...): a committed batch was rewritten"))
                    break
            if bad:
                break
        lens = {k2: len(sm._history[k2]) for k2 in HKEYS}
        if len(set(lens.values())) != 1:
            bad.append(("history-not-append-only", f"recorded quantities out of step after run(): {lens}"))
        return bad, len(committed)
    finally:
        if tmp:
            shutil.rmtree(tmp, ignore_errors=True)


def twin(cfg, n_iter):
    a = hostile_run(cfg, False, n_iter)
    b = hostile_run(cfg, True, n_iter)
    bad = []
    for msg in a["append_bad"]:
        bad.append(("history-not-append-only", msg))
    if b["aliases"]:
        bad.append(("alias-sampler-" + "+".join(b["aliases"])[:60], f"arrays returned by {b['aliases']} share memory with the sampler's internal state"))
    if a["final"] != b["final"]:
        k = next((i for i, (x, y) in enumerate(zip(a["snaps"], b["snaps"])) if x != y), None)
        bad.append(("hostile-caller-changes-history", f"overwriting returned arrays changed the run: histories diverge at iteration {k}"))
    elif a["results"] != b["results"] or a["post"] != b["post"]:
        bad.append(("hostile-caller-changes-results", "overwriting returned arrays changed later results()/posterior()"))
    return bad, b["hit"], a["n_hist"]


def run():
    ck = Check("C17")
    n = ck.pick(300, 5000)
    n_ops = 40
    per = ck.pick(20, 100)
    tasks = [("tvf.checks.c17:_seq_batch", dict(seed=ck.seed, start=s, count=min(per, n - s), n_ops=n_ops), None) for s in range(0, n, per)]
    for i, st, val in farm.run(tasks, timeout=900, progress="C17"):
        if st != "ok":
            ck.inconc(f"batch {i}: {st} {str(val)[:300]}")
            continue
        for idx, bad, counts in val:
            ck.case(dict(sequence=idx, ops=counts), nontrivial=counts.get("commit", 0) > 0)
            for k, c in counts.items():
                ck.event("op " + k, c)
            ck.event("operation sequences compared with reference model")
            for key, what in bad:
                ck.violation(key, what, dict(stream=["seq", idx]))
    from tvf import runs
    m = ck.pick(6, 40)
    def tcfg(i):
        c = dict(runs.small_cfg(i), seed=ck.subseed("twin", i))
        if i % 3 == 2:     # a target with a zero-likelihood region: exercises the warm-up replacement / correction path
            c.update(target="support", tkw=dict(f=0.5), ess_ratio=3.0)
        if i % 2 == 0:     # the user's vectorised likelihood owns its output memory: read-only view of a buffer reused by the next call
            c.update(mode="vec", ro_buffer=True)
        return c
    tasks = [("tvf.checks.c17:twin", dict(cfg=tcfg(i), n_iter=ck.pick(6, 10)), None) for i in range(m)]
    for i, st, val in farm.run(tasks, timeout=600, progress="C17-twin"):
        if st != "ok":
            ck.violation("twin-run-crashed", f"twin run {tasks[i][1]['cfg']}: {st} {str(val)[-600:]}", dict(cfg=tasks[i][1]["cfg"]))
            continue
        bad, hit, nh = val
        ck.case(dict(twin=tasks[i][1]["cfg"]), nontrivial=hit > 0)
        ck.event("sampler twin runs (hostile vs untouched caller)")
        if tasks[i][1]["cfg"].get("ro_buffer"):
            ck.event("twin runs whose likelihood returns a read-only view of a reused buffer")
        ck.event("arrays overwritten by the hostile caller", hit)
        for key, what in bad:
            ck.violation(key, what, dict(cfg=tasks[i][1]["cfg"]))
    at = [("tvf.checks.c17:run_appendonly", dict(cfg=tcfg(i + 100), resume=bool(i % 2)), None) for i in range(ck.pick(6, 40))]
    for i, st, val in farm.run(at, timeout=600, progress="C17-appendonly"):
        kw = at[i][1]
        if st != "ok":
            ck.violation("twin-run-crashed", f"append-only run {kw['cfg']}: {st} {str(val)[-600:]}", kw)
            continue
        bad, ncom = val
        ck.case(dict(appendonly=kw), nontrivial=ncom > 2)
        ck.event("complete run() calls observed at commit and compared after return", 1)
        ck.event("committed batches digested at commit time and re-read after run() returned", ncom)
        for key, what in bad:
            ck.violation(key, what, kw)
    ck.require_events("operation sequences compared with reference model", "op commit", "op to_dict", "op results",
                      "committed batches digested at commit time and re-read after run() returned",
                      "sampler twin runs (hostile vs untouched caller)", "arrays overwritten by the hostile caller")
    return ck.finish(
        rule="random sequences of 40 StateManager operations (set/update with copy on and off, commit, every getter, to_dict, "
             "compute_results, from_dict/update_from_dict of donated dictionaries, save/load, compute_logw_and_logz) compared after every "
             "operation with a dict-of-copies reference model while the caller overwrites every array it was handed; plus sampler-level "
             "twin runs (hostile vs untouched caller) compared bitwise; non-trivial = sequence contains a commit / hostile caller hit >=1 array",
        assumptions=["dictionaries passed *into* from_dict/update_from_dict and values passed with copy=False are donated (documented contract): import-side aliasing is not judged"],
    )


def replay(rec):
    os.environ["VERIF_SEED"] = str(rec["seed"])
    ck = Check("C17")
    w = rec["witness"] or {}
    if "stream" in w:
        bad, _ = run_sequence(ck.rng(*w["stream"]), 40)
        print(bad or "held")
        return 1 if bad else 0
    if "cfg" in w:
        bad, _, _ = twin(dict(w["cfg"], seed=1), 6)
        print(bad or "held")
        return 1 if bad else 0
    return 2

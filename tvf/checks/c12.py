"""C12 - run() postconditions and the posterior()/evidence() contract.

After a real run(n_total): |1-beta| < 1e-4, reference ESS at beta=1 >= n_total, evidence()
equals the reference MIS evidence; then every one of the 2^4 option combinations of
posterior() x trimming parameters is called and each returned row is identified through the
instrumented likelihood (x bytes / blob id) so that x, logL, blob and log-weight provably
belong to the same particle.
"""
from __future__ import annotations

import itertools

import numpy as np

from tvf import cover, farm, runs
from tvf.env import Check, fmt_exc
from tvf.oracles import mis_ref, ess_ref
from tvf.records import coherent_rows

FACTORS = dict(
    target=["gauss2", "bimodal", "expface", "vonmises", "expface_refl", "support"],
    kernel=["tpcn", "rwm"], resample=["mult", "syst"], clustering=[False, True],
    mode=["vec", "scalar", "blobs", "blobs2", "blobs3"], metric=["ess", "vol"], N=[32, 64], ntot=[2, 5],
)
TRIMS = [(0.99, 1000), (0.9, 10), (0.999999, 1000), (0.5, 2), (0.99, 1), (0.5, 100), (0.999, 1000), (0.99, 2), (0.7, 37)]


def to_cfg(row, seed):
    c = dict(target=row["target"], kernel=row["kernel"], resample=row["resample"], clustering=row["clustering"],
             mode=row["mode"], N=row["N"], n_total=row["N"] * row["ntot"], seed=seed,
             volume_variation=(1.0 if row["metric"] == "vol" else None))
    if row["target"] == "support":
        c["tkw"] = dict(f=0.5)
    return c


def case(cfg, trims):
    bad = []
    out = dict(bad=bad, combos=0, rows=0)
    try:
        s, t, like, pt = runs.run(cfg)
    except Exception as e:
        bad.append(("run-raises", f"{type(e).__name__}: {e}\n{fmt_exc()[-400:]}"))
        return out
    c = runs.full(cfg)
    H = runs.history(s)
    beta = float(s.state.get_current("beta"))
    if not (abs(1 - beta) < 1e-4):
        bad.append(("post-beta", f"run() returned with beta={beta!r}"))
    lwu, lwn, lz, ess = mis_ref(H["logl"], H["beta"], H["logz"], 1.0)
    if float(ess) < c["n_total"] * (1 - 1e-9):
        bad.append(("post-ess", f"run(n_total={c['n_total']}) returned with reference ESS {float(ess):.3f} over the whole history"))
    ev = s.evidence()
    if not isinstance(ev, tuple) or abs(float(ev[0]) - float(lz)) > 1e-8 * (1 + abs(float(lz))):
        bad.append(("post-evidence", f"evidence()={ev!r} but the MIS evidence recomputed from the stored history at beta=1 is {float(lz)!r}"))
    # re-opening a finished run: run(save_every) wrote <label>_final.state; a fresh sampler resumes from it with the target met
    if c.get("reopen"):
        import os, shutil
        from tvf.checks.c08 import tmpdir
        tmp = tmpdir()
        try:
            c2 = dict(c, output_dir=tmp, output_label="fin")
            np.random.seed(c["seed"])
            sA = runs.build(c2)[0]
            sA.run(n_total=c["n_total"], progress=False, save_every=3)
            fin = os.path.join(tmp, "fin_final.state")
            if os.path.exists(fin):
                sB = runs.build(c2)[0]
                sB.run(n_total=c["n_total"], progress=False, resume_state_path=fin)
                HB = runs.history(sB)
                _, _, lzB, essB = mis_ref(HB["logl"], HB["beta"], HB["logz"], 1.0)
                evB = float(sB.evidence()[0])
                out["reopened"] = 1
                if abs(evB - float(lzB)) > 1e-8 * (1 + abs(float(lzB))):
                    bad.append(("post-evidence", f"after run(resume_state_path=<final checkpoint>) with the target already met, evidence()={evB!r} but the MIS "
                                f"evidence recomputed from the stored history is {float(lzB)!r}"))
                if float(essB) < c["n_total"] * (1 - 1e-9) or abs(1 - float(sB.state.get_current("beta"))) >= 1e-4:
                    bad.append(("post-ess", "re-opened finished run violates the beta/ESS postconditions"))
        except Exception as e:
            bad.append(("run-raises", f"re-opening a finished run raised {type(e).__name__}: {e}"))
        finally:
            shutil.rmtree(tmp, ignore_errors=True)
    # reference log-weight per particle content
    xflat = np.concatenate(H["x"])
    ref_lw = {}
    for j in range(len(xflat)):
        ref_lw[xflat[j].tobytes()] = float(lwn[j])
    pool_n = len(xflat)
    have_blobs = c["mode"] in ("blobs", "blobs2", "blobs3")
    for (rs, rb, tr, rl) in itertools.product([False, True], repeat=4):
        for (et, bt) in (trims if tr else trims[:1]):
            where = f"posterior(resample={rs}, return_blobs={rb}, trim_importance_weights={tr}, return_logw={rl}, ess_trim={et}, bins_trim={bt})"
            try:
                np.random.seed(12345)
                res = s.posterior(resample=rs, return_blobs=rb, trim_importance_weights=tr, return_logw=rl, ess_trim=et, bins_trim=bt)
            except Exception as e:
                bad.append(("posterior-raises", f"{where} raised {type(e).__name__}: {e}"))
                continue
            out["combos"] += 1
            exp_len = 3 + (1 if (rb and have_blobs) else 0) + (1 if rl else 0)
            if not isinstance(res, tuple) or len(res) != exp_len:
                bad.append(("posterior-arity", f"{where} returned {len(res) if isinstance(res, tuple) else type(res)} values, expected {exp_len}"))
                continue
            x, w, logl = res[0], res[1], res[2]
            blobs = res[3] if (rb and have_blobs) else None
            logw = res[-1] if rl else None
            n = len(w)
            out["rows"] += n
            lens = {"x": len(x), "weights": len(w), "logl": len(logl)}
            if blobs is not None:
                lens["blobs"] = len(blobs)
            if logw is not None:
                lens["logw"] = len(logw)
            if len(set(lens.values())) != 1:
                key = "posterior-logw-length" if set(k for k, v in lens.items() if v != n) == {"logw"} else "posterior-lengths"
                bad.append((key, f"{where}: lengths {lens}"))
                continue
            if np.any(w < 0) or not np.all(np.isfinite(w)) or abs(float(np.sum(w)) - 1) > 1e-9:
                bad.append(("posterior-weights", f"{where}: weights min {w.min()!r} sum {float(np.sum(w))!r}"))
            if rs and not np.allclose(w, 1.0 / n, rtol=1e-12, atol=0):
                bad.append(("posterior-resample-nonuniform", f"{where}: weights not uniform after resampling"))
            if not tr and not rs and n != pool_n:
                bad.append(("posterior-lengths", f"{where}: {n} rows, history holds {pool_n}"))
            for key, what in coherent_rows(t, like, None, x, logl, blobs, where):
                bad.append((key, what))
            if logw is not None:
                try:
                    diff = np.array([float(logw[j]) - ref_lw[np.ascontiguousarray(x[j]).tobytes()] for j in range(n)])
                    if np.max(diff) - np.min(diff) > 1e-8:
                        j = int(np.argmax(np.abs(diff - np.median(diff))))
                        bad.append(("posterior-logw-misaligned", f"{where}: returned log-weights are not the log-weights of the returned rows "
                                    f"(row {j}: {float(logw[j])!r} vs reference {ref_lw[np.ascontiguousarray(x[j]).tobytes()]!r} + const)"))
                except KeyError:
                    bad.append(("x-never-evaluated", f"{where}: returned x not in history"))
            if not rs:
                # weights must be the (renormalised) reference weights of the returned rows
                try:
                    rw = np.exp(np.array([ref_lw[np.ascontiguousarray(x[j]).tobytes()] for j in range(n)]))
                    rw = rw / rw.sum()
                    if not np.allclose(w, rw, rtol=1e-7, atol=1e-300):
                        bad.append(("posterior-weights-misaligned", f"{where}: weights are not the normalised MIS weights of the returned rows"))
                except KeyError:
                    pass
    return out


def run():
    ck = Check("C12")
    rng = ck.rng("lattice")
    rows = cover.covering(FACTORS, ck.pick(2, 3), rng, valid=lambda r: True)
    if not ck.quick:
        for extra in range(4):     # four more independently generated 3-wise arrays (different rows, different seeds)
            rows += cover.covering(FACTORS, 3, ck.rng("lattice", extra), valid=lambda r: True)
    if ck.quick:
        rows = rows[:8] if len(rows) > 8 else rows
    rows = list(rows) + [dict(target="gauss2", kernel="tpcn", resample="syst", clustering=False, mode="blobs3", metric="ess", N=32, ntot=3),
                         dict(target="bimodal", kernel="rwm", resample="mult", clustering=True, mode="blobs2", metric="vol", N=32, ntot=3)]
    trims = TRIMS[:5] if ck.quick else TRIMS
    ck.tables["pairwise_coverage"] = cover.coverage(rows, FACTORS, 2)
    ck.tables["threeway_coverage"] = cover.coverage(rows, FACTORS, 3)
    tasks = [("tvf.checks.c12:case", dict(cfg=dict(to_cfg(r, ck.subseed("cfg", i)), reopen=(i % 2 == 0)), trims=trims), None) for i, r in enumerate(rows)]
    for i, st, val in farm.run(tasks, timeout=900, progress="C12"):
        cfg = tasks[i][1]["cfg"]
        if st == "timeout":
            ck.inconc(f"{cfg}: watchdog")
            continue
        if st != "ok":
            ck.violation("run-crashed", f"{cfg}: {st} {str(val)[-400:]}", dict(cfg=cfg))
            continue
        ck.case(dict(cfg=cfg), nontrivial=val["combos"] > 0)
        ck.event("completed runs with postconditions checked")
        ck.event("posterior() option combinations called", val["combos"])
        ck.event("finished runs re-opened from their final checkpoint", val.get("reopened", 0))
        ck.event("posterior rows identified through the evaluation log", val["rows"])
        seen = set()
        for key, what in val["bad"]:
            if (key,) in seen:
                continue
            seen.add((key,))
            ck.violation(key, what, dict(cfg=cfg))
    ck.require_events("completed runs with postconditions checked", "posterior() option combinations called",
                      "posterior rows identified through the evaluation log")
    return ck.finish(
        rule="pairwise (quick, first 8 rows) / 3-wise (thorough) covering array over target x kernel x resampler x clustering x "
             "vec/scalar/blobs x metric mode x N x n_total/N; after each completed run all 16 posterior() flag combinations x trimming "
             "parameters; rows identified by x bytes / blob id in the instrumented likelihood's evaluation log; "
             "non-trivial = at least one posterior() combination returned",
        assumptions=["log-weights are compared up to one additive constant per call (normalisation is not prescribed by the property)"],
    )

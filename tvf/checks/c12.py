"""C12 - run() postconditions and the posterior()/evidence() contract.

After a real run(n_total): |1-beta| < 1e-4, reference ESS at beta=1 >= n_total, evidence()
equals the reference MIS evidence; then every one of the 2^4 option combinations of
posterior() x trimming parameters is called and each returned row is identified through the
instrumented likelihood (x bytes / blob id) so that x, logL, blob and log-weight provably
belong to the same particle.
"""
from __future__ import annotations

import itertools

import numpy as np

from tvf import cover, farm, runs
from tvf.env import Check, fmt_exc
from tvf.oracles import mis_ref, ess_ref
from tvf.records import coherent_rows

FACTORS = dict(
    target=["gauss2", "bimodal", "expface", "vonmises", "expface_refl", "support"],
    kernel=["tpcn", "rwm"], resample=["mult", "syst"], clustering=[False, True],
    mode=["vec", "scalar", "blobs", "blobs2", "blobs3"], metric=["ess", "vol"], N=[32, 64], ntot=[2, 5],
)
TRIMS = [(0.99, 1000), (0.9, 10), (0.999999, 1000), (0.5, 2), (0.99, 1), (0.5, 100), (0.999, 1000), (0.99, 2), (0.7, 37)]


def to_cfg(row, seed):
    c = dict(target=row["target"], kernel=row["kernel"], resample=row["resample"], clustering=row["clustering"],
             mode=row["mode"], N=row["N"], n_total=row["N"] * row["ntot"], seed=seed,
             volume_variation=(1.0 if row["metric"] == "vol" else None))
    if row["target"] == "support":
        c["tkw"] = dict(f=0.5)
    if row.get("shift"):
        c["shift"] = row["shift"]
    return c


def case(cfg, trims):
    bad = []
    out = dict(bad=bad, combos=0, rows=0)
    try:
        s, t, like, pt = runs.run(cfg)
    except Exception as e:
        bad.append(("run-raises", f"{type(e).__name__}: {e}\n{fmt_exc()[-400:]}"))
        return out
    c = runs.full(cfg)
    H = runs.history(s)
    beta = float(s.state.get_current("beta"))
    if not (abs(1 - beta) < 1e-4):
        bad.append(("post-beta", f"run() returned with beta={beta!r}"))
    out["ended_below_one"] = int(beta < 1.0)
    lwu, lwn, lz, ess = mis_ref(H["logl"], H["beta"], H["logz"], 1.0)
    if float(ess) < c["n_total"] * (1 - 1e-9):
        bad.append(("post-ess", f"run(n_total={c['n_total']}) returned with reference ESS {float(ess):.3f} over the whole history"))
    ev = s.evidence()
    if not isinstance(ev, tuple) or abs(float(ev[0]) - float(lz)) > 1e-8 * (1 + abs(float(lz))):
        bad.append(("post-evidence", f"evidence()={ev!r} but the MIS evidence recomputed from the stored history at beta=1 is {float(lz)!r}"))
    # re-opening a finished run: run(save_every) wrote <label>_final.state; a fresh sampler resumes from it with the target met
    if c.get("reopen"):
        import os, shutil
        from tvf.checks.c08 import tmpdir
        tmp = tmpdir()
        try:
            c2 = dict(c, output_dir=tmp, output_label="fin")
            np.random.seed(c["seed"])
            sA = runs.build(c2)[0]
            sA.run(n_total=c["n_total"], progress=runs.prog(c), save_every=3)
            fin = os.path.join(tmp, "fin_final.state")
            if os.path.exists(fin):
                sB = runs.build(c2)[0]
                sB.run(n_total=c["n_total"], progress=runs.prog(c), resume_state_path=fin)
                HB = runs.history(sB)
                _, _, lzB, essB = mis_ref(HB["logl"], HB["beta"], HB["logz"], 1.0)
                evB = float(sB.evidence()[0])
                out["reopened"] = 1
                if abs(evB - float(lzB)) > 1e-8 * (1 + abs(float(lzB))):
                    bad.append(("post-evidence", f"after run(resume_state_path=<final checkpoint>) with the target already met, evidence()={evB!r} but the MIS "
                                f"evidence recomputed from the stored history is {float(lzB)!r}"))
                if float(essB) < c["n_total"] * (1 - 1e-9) or abs(1 - float(sB.state.get_current("beta"))) >= 1e-4:
                    bad.append(("post-ess", "re-opened finished run violates the beta/ESS postconditions"))
        except Exception as e:
            bad.append(("run-raises", f"re-opening a finished run raised {type(e).__name__}: {e}"))
        finally:
            shutil.rmtree(tmp, ignore_errors=True)
    # a run continued from a mid-run checkpoint by a sampler with ANOTHER particle count: the stored history then holds batches
    # of different sizes, and everything computed from it must use the sizes it actually has
    if c.get("ragged"):
        import os, shutil
        from tvf.checks.c08 import tmpdir
        tmp = tmpdir()
        try:
            c2 = dict(c, output_dir=tmp, output_label="rg")
            np.random.seed(c["seed"])
            sA = runs.build(c2)[0]
            sA.run(n_total=c["n_total"], progress=runs.prog(c), save_every=2)
            files = sorted((f for f in os.listdir(tmp) if f.startswith("rg_") and "final" not in f), key=lambda f: int(f.split("_")[1].split(".")[0]))
            if files:
                N2 = c["N"] * 4 if c["seed"] % 2 else max(8, c["N"] // 4)
                sB = runs.build(dict(c2, N=N2))[0]
                sB.run(n_total=c["n_total"], progress=runs.prog(c), resume_state_path=os.path.join(tmp, files[len(files) // 2]))
                HB = runs.history(sB)
                sizes = sorted(set(len(l) for l in HB["logl"]))
                _, lwnB, lzB, essB = mis_ref(HB["logl"], HB["beta"], HB["logz"], 1.0)
                evB = float(sB.evidence()[0])
                out["ragged"] = int(len(sizes) > 1)
                if abs(evB - float(lzB)) > 1e-8 * (1 + abs(float(lzB))):
                    bad.append(("post-evidence", f"history with batch sizes {sizes} (run continued with n_particles={N2} instead of {c['N']}): evidence()={evB!r} but the MIS "
                                f"evidence recomputed from the stored history is {float(lzB)!r}"))
                if float(essB) < c["n_total"] * (1 - 1e-9) or abs(1 - float(sB.state.get_current("beta"))) >= 1e-4:
                    bad.append(("post-ess", f"history with batch sizes {sizes}: run ended at beta={float(sB.state.get_current('beta'))} with reference ESS {float(essB):.2f} < n_total={c['n_total']}"))
                xB, wB, lB = sB.posterior(trim_importance_weights=False)
                wr = np.exp(np.asarray(lwnB, dtype=np.longdouble)).astype(float)
                wr /= wr.sum()
                if len(wB) != len(wr) or not np.allclose(wB, wr, rtol=1e-7, atol=1e-300):
                    bad.append(("posterior-weights-misaligned", f"history with batch sizes {sizes}: posterior() weights are not the normalised MIS weights of the stored rows"))
        except Exception as e:
            bad.append(("run-raises", f"continuing a run with another particle count raised {type(e).__name__}: {e}"))
        finally:
            shutil.rmtree(tmp, ignore_errors=True)
    # a second run() on the same object (the library keeps the stored history and tops it up; whether that is a fresh start is
    # not stated anywhere, so only the postconditions of run() are judged)
    if c.get("rerun"):
        try:
            np.random.seed(c["seed"] + 17)
            n2 = int(c["n_total"] * (1.5 if c["seed"] % 2 else 0.75))
            s.run(n_total=n2, progress=runs.prog(c))
            H2 = runs.history(s)
            _, lwn2, lz2, ess2 = mis_ref(H2["logl"], H2["beta"], H2["logz"], 1.0)
            out["rerun"] = 1
            if abs(1 - float(s.state.get_current("beta"))) >= 1e-4 or float(ess2) < n2 * (1 - 1e-9):
                bad.append(("post-ess", f"second run(n_total={n2}) on the same object ended at beta={float(s.state.get_current('beta'))}, reference ESS {float(ess2):.2f}"))
            ev2 = float(s.evidence()[0])
            if abs(ev2 - float(lz2)) > 1e-8 * (1 + abs(float(lz2))):
                bad.append(("post-evidence", f"after a second run() on the same object evidence()={ev2!r} but the MIS evidence of the stored history is {float(lz2)!r}"))
            H, lwn = H2, lwn2
        except Exception as e:
            bad.append(("run-raises", f"second run() on the same object raised {type(e).__name__}: {e}"))
    # reference log-weight per particle content
    xflat = np.concatenate(H["x"])
    ref_lw = {}
    for j in range(len(xflat)):
        ref_lw[xflat[j].tobytes()] = float(lwn[j])
    pool_n = len(xflat)
    have_blobs = c["mode"] in ("blobs", "blobs2", "blobs3", "blobview", "blobsI", "blobsS")
    for (rs, rb, tr, rl) in itertools.product([False, True], repeat=4):
        for (et, bt) in (trims if tr else trims[:1]):
            where = f"posterior(resample={rs}, return_blobs={rb}, trim_importance_weights={tr}, return_logw={rl}, ess_trim={et}, bins_trim={bt})"
            try:
                np.random.seed(12345)
                res = s.posterior(resample=rs, return_blobs=rb, trim_importance_weights=tr, return_logw=rl, ess_trim=et, bins_trim=bt)
            except Exception as e:
                bad.append(("posterior-raises", f"{where} raised {type(e).__name__}: {e}"))
                continue
            out["combos"] += 1
            exp_len = 3 + (1 if (rb and have_blobs) else 0) + (1 if rl else 0)
            if not isinstance(res, tuple) or len(res) != exp_len:
                bad.append(("posterior-arity", f"{where} returned {len(res) if isinstance(res, tuple) else type(res)} values, expected {exp_len}"))
                continue
            x, w, logl = res[0], res[1], res[2]
            blobs = res[3] if (rb and have_blobs) else None
            logw = res[-1] if rl else None
            n = len(w)
            out["rows"] += n
            lens = {"x": len(x), "weights": len(w), "logl": len(logl)}
            if blobs is not None:
                lens["blobs"] = len(blobs)
            if logw is not None:
                lens["logw"] = len(logw)
            if len(set(lens.values())) != 1:
                key = "posterior-logw-length" if set(k for k, v in lens.items() if v != n) == {"logw"} else "posterior-lengths"
                bad.append((key, f"{where}: lengths {lens}"))
                continue
            if np.any(w < 0) or not np.all(np.isfinite(w)) or abs(float(np.sum(w)) - 1) > 1e-9:
                bad.append(("posterior-weights", f"{where}: weights min {w.min()!r} sum {float(np.sum(w))!r}"))
            if rs and not np.allclose(w, 1.0 / n, rtol=1e-12, atol=0):
                bad.append(("posterior-resample-nonuniform", f"{where}: weights not uniform after resampling"))
            if not tr and not rs and n != pool_n:
                bad.append(("posterior-lengths", f"{where}: {n} rows, history holds {pool_n}"))
            for key, what in coherent_rows(t, like, None, x, logl, blobs, where):
                bad.append((key, what))
            if logw is not None:
                try:
                    diff = np.array([float(logw[j]) - ref_lw[np.ascontiguousarray(x[j]).tobytes()] for j in range(n)])
                    if np.max(diff) - np.min(diff) > 1e-8:
                        j = int(np.argmax(np.abs(diff - np.median(diff))))
                        bad.append(("posterior-logw-misaligned", f"{where}: returned log-weights are not the log-weights of the returned rows "
                                    f"(row {j}: {float(logw[j])!r} vs reference {ref_lw[np.ascontiguousarray(x[j]).tobytes()]!r} + const)"))
                except KeyError:
                    bad.append(("x-never-evaluated", f"{where}: returned x not in history"))
            if not rs:
                # weights must be the (renormalised) reference weights of the returned rows
                try:
                    rw = np.exp(np.array([ref_lw[np.ascontiguousarray(x[j]).tobytes()] for j in range(n)]))
                    rw = rw / rw.sum()
                    if not np.allclose(w, rw, rtol=1e-7, atol=1e-300):
                        bad.append(("posterior-weights-misaligned", f"{where}: weights are not the normalised MIS weights of the returned rows"))
                except KeyError:
                    pass
    return out


def reload_case(cfg):
    """A sampler object that has finished a run (and answered posterior()) gets the final state of ANOTHER run loaded, one with the
    same number of iterations and of stored samples; posterior() and evidence() must then describe the loaded history."""
    import os, shutil
    from tvf.checks.c08 import tmpdir
    bad = []
    out = dict(bad=bad, same_shape=0)
    tmp = tmpdir()
    try:
        c = runs.full(cfg)
        np.random.seed(c["seed"])
        sA = runs.build(c)[0]
        sA.run(n_total=c["n_total"], progress=runs.prog(c))
        np.random.seed(c["seed"] + 1)
        sB = runs.build(c)[0]
        sB.run(n_total=c["n_total"], progress=runs.prog(c))
        # equalise the number of iterations by letting the shorter run take further iterations at beta = 1
        for _ in range(40):
            la, lb = sA.state.get_history_length(), sB.state.get_history_length()
            if la == lb:
                break
            (sA if la < lb else sB).sample()
        HA, HB = runs.history(sA), runs.history(sB)
        out["same_shape"] = int(len(HA["beta"]) == len(HB["beta"]) and sum(map(len, HA["logl"])) == sum(map(len, HB["logl"])))
        pB = os.path.join(tmp, "b.state")
        sB.save_state(pB)
        sA.posterior()
        sA.posterior(trim_importance_weights=False, return_logw=True)
        sA.evidence()
        sA.load_state(pB)
        lwu, lwn, lz, ess = mis_ref(HB["logl"], HB["beta"], HB["logz"], 1.0)
        wref = np.exp(np.asarray(lwn, dtype=np.longdouble)).astype(float)
        wref /= wref.sum()
        x, w, l, lw = sA.posterior(trim_importance_weights=False, return_logw=True)
        if len(w) != len(wref) or not np.allclose(w, wref, rtol=1e-7, atol=1e-300) or x.tobytes() != np.concatenate(HB["x"]).tobytes():
            bad.append(("posterior-weights-misaligned", f"after loading another run's final state (same shape: {bool(out['same_shape'])}) into a sampler that had finished its own run, "
                        "posterior() does not return the loaded rows with their MIS weights"))
        d = np.asarray(lw, float) - np.asarray(lwn, float) if len(lw) == len(lwn) else np.array([0.0, 1.0])
        if np.max(d) - np.min(d) > 1e-8:
            bad.append(("posterior-logw-misaligned", "after loading another run's final state: returned log-weights are not those of the loaded history"))
        sA.run(n_total=c["n_total"], progress=runs.prog(c), resume_state_path=pB)
        H2 = runs.history(sA)
        _, _, lz2, ess2 = mis_ref(H2["logl"], H2["beta"], H2["logz"], 1.0)
        ev = float(sA.evidence()[0])
        if abs(ev - float(lz2)) > 1e-8 * (1 + abs(float(lz2))):
            bad.append(("post-evidence", f"run(resume_state_path=<another run's final state>) on a used sampler: evidence()={ev!r}, MIS evidence of the stored history {float(lz2)!r}"))
        if float(ess2) < c["n_total"] * (1 - 1e-9):
            bad.append(("post-ess", f"run(resume_state_path=<another run's final state>) on a used sampler returned with reference ESS {float(ess2):.2f} < {c['n_total']}"))
    except Exception as e:
        bad.append(("run-raises", f"reload scenario raised {type(e).__name__}: {e}\n{fmt_exc()[-300:]}"))
    finally:
        shutil.rmtree(tmp, ignore_errors=True)
    return out


def big_history_case(seed, N, T, real):
    """posterior() / evidence() on a stored history of more than 2**17 rows (blockwise or chunked evaluation paths).
    real=False: the history is committed through the public StateManager API of a live sampler and only posterior() is judged
    (evidence() reports what the last reweighting step recorded); real=True: an actual run with a large particle count."""
    from tvf import targets as TG
    bad = []
    rng = np.random.default_rng(seed)
    if real:
        cfg = dict(target="gauss2", kernel="tpcn", resample="syst", clustering=False, mode="vec", N=N, n_total=N * T, seed=seed % 10 ** 6)
        s, t, like, pt = runs.run(cfg)
        H = runs.history(s)
        lwu, lwn, lz, ess = mis_ref(H["logl"], H["beta"], H["logz"], 1.0)
        ev = float(s.evidence()[0])
        if abs(ev - float(lz)) > 1e-8 * (1 + abs(float(lz))):
            bad.append(("post-evidence", f"history of {sum(len(l) for l in H['logl'])} rows: evidence()={ev!r} but the MIS evidence recomputed from the stored "
                        f"history at beta=1 is {float(lz)!r}"))
        if float(ess) < cfg["n_total"] * (1 - 1e-9):
            bad.append(("post-ess", f"large run returned with reference ESS {float(ess):.1f} < n_total={cfg['n_total']}"))
    else:
        cfg = dict(target="gauss2", kernel="tpcn", resample="syst", clustering=False, mode="vec", N=64, n_total=64, seed=seed % 10 ** 6)
        np.random.seed(cfg["seed"])
        s, t, like, pt = runs.build(cfg)
        s._core._initialize_fresh()
        sm = s.state
        betas = np.concatenate([[0.0, 0.0], np.sort(rng.random(T - 3)), [1.0]])
        logz = np.zeros(T)
        Hl = []
        for k in range(T):
            n = N + int(rng.integers(0, 7))
            u = rng.random((n, 2)) if betas[k] == 0 else np.clip(0.5 + 0.1 * rng.standard_normal((n, 2)), 0.001, 0.999)
            x = pt(u)
            l = np.asarray(t.loglike(x), float)
            Hl.append(l)
            if k:
                logz[k] = float(mis_ref(Hl[:k], betas[:k], logz[:k], betas[k])[2]) if k < 6 else logz[k - 1] + 0.01 * rng.standard_normal()
            sm.update_current(dict(u=u, x=x, logl=l, beta=float(betas[k]), logz=float(logz[k]), iter=k + 1, calls=(k + 1) * N, steps=1,
                                   efficiency=1.0, ess=float(N), acceptance=0.3))
            sm.commit_current_to_history()
        H = runs.history(s)
        lwu, lwn, lz, ess = mis_ref(H["logl"], H["beta"], H["logz"], 1.0)
    xflat = np.concatenate(H["x"])
    lflat = np.concatenate(H["logl"])
    rows = len(lflat)
    wref = np.exp(np.asarray(lwn, dtype=np.longdouble)).astype(float)
    wref /= wref.sum()
    for kw in (dict(trim_importance_weights=False), dict(trim_importance_weights=False, return_logw=True), dict()):
        res = s.posterior(**kw)
        x, w, l = res[0], res[1], res[2]
        if not kw.get("trim_importance_weights", True):
            if len(w) != rows or x.tobytes() != xflat.tobytes() or l.tobytes() != lflat.tobytes():
                bad.append(("posterior-lengths", f"posterior({kw}) on a history of {rows} rows does not return the stored rows in order"))
                continue
            if not np.allclose(w, wref, rtol=1e-7, atol=1e-300):
                j = int(np.argmax(np.abs(w - wref)))
                bad.append(("posterior-weights-misaligned", f"posterior({kw}) on a history of {rows} rows: weights are not the normalised MIS weights of the rows "
                            f"(row {j}: {w[j]!r} vs {wref[j]!r}; rows beyond {rows - rows % 2 ** 17} are the last partial block of 2**17)"))
            if kw.get("return_logw"):
                d = np.asarray(res[-1], float) - np.asarray(lwn, float)
                if np.max(d) - np.min(d) > 1e-8:
                    bad.append(("posterior-logw-misaligned", f"posterior(return_logw=True) on {rows} rows: log-weights differ from the reference by a non-constant"))
        else:
            if abs(float(np.sum(w)) - 1) > 1e-9 or np.any(w < 0):
                bad.append(("posterior-weights", f"posterior() on {rows} rows: weights sum {float(np.sum(w))!r}"))
    return dict(bad=bad, rows=rows, real=real)


def run():
    ck = Check("C12")
    rng = ck.rng("lattice")
    rows = cover.covering(FACTORS, ck.pick(2, 3), rng, valid=lambda r: True)
    if not ck.quick:
        for extra in range(4):     # four more independently generated 3-wise arrays (different rows, different seeds)
            rows += cover.covering(FACTORS, 3, ck.rng("lattice", extra), valid=lambda r: True)
    if ck.quick:
        rows = rows[:8] if len(rows) > 8 else rows
    rows = list(rows) + [dict(target="gauss2", kernel="tpcn", resample="syst", clustering=False, mode="blobs3", metric="ess", N=32, ntot=3),
                         dict(target="bimodal", kernel="rwm", resample="mult", clustering=True, mode="blobs2", metric="vol", N=32, ntot=3)]
    # un-normalised likelihoods: a constant of +-720 ... +-1e5 on the log-likelihood puts the evidence (and every un-normalised
    # weight) outside the range of exp(); the postconditions are statements about normalised weights and do not depend on it
    shifts = [-1000.0, 900.0, -760.0, 720.0, -1e5, 3e4]
    for j in range(ck.pick(4, 12)):
        rows.append(dict(target=["gauss2", "bimodal", "expface", "support"][j % 4], kernel=["tpcn", "rwm"][j % 2], resample=["syst", "mult"][(j // 2) % 2],
                         clustering=bool(j % 3 == 0), mode=["vec", "scalar", "blobs"][j % 3], metric=["ess", "vol"][(j // 3) % 2], N=[32, 48][j % 2], ntot=[4, 16][j % 2],
                         shift=shifts[j % len(shifts)]))
    trims = TRIMS[:5] if ck.quick else TRIMS
    ck.tables["pairwise_coverage"] = cover.coverage(rows, FACTORS, 2)
    ck.tables["threeway_coverage"] = cover.coverage(rows, FACTORS, 3)
    tasks = [("tvf.checks.c12:case", dict(cfg=dict(to_cfg(r, ck.subseed("cfg", i)), reopen=(i % 2 == 0), rerun=(i % 3 == 1), ragged=(i % 3 == 2),
                                                 pin_limit=([None, 1 - 5e-5, None, 1 - 9e-5][i % 4])), trims=trims), None) for i, r in enumerate(rows)]
    # the shortest documented use, every option and run() argument at its default (n_particles = 2 n_dim, n_total = 4096, progress display
    # on, clustering on); first in the list because it is the longest run
    for j in range(ck.pick(1, 3)):
        dcfg = dict(target=["gauss12", "gauss10", "gauss14"][j], tkw=dict(rho=0.3, half=6.0), kernel="tpcn", resample="mult", clustering=True, mode="scalar",
                    N=[24, 20, 28][j], n_total=4096, seed=ck.subseed("defaults", j), all_defaults=True)
        tasks.insert(0, ("tvf.checks.c12:case", dict(cfg=dcfg, trims=trims[:2]), None))
    for i, st, val in farm.run(tasks, timeout=900, progress="C12"):
        cfg = tasks[i][1]["cfg"]
        if st == "timeout":
            ck.inconc(f"{cfg}: watchdog")
            continue
        if st != "ok":
            ck.violation("run-crashed", f"{cfg}: {st} {str(val)[-400:]}", dict(cfg=cfg))
            continue
        ck.case(dict(cfg=cfg), nontrivial=val["combos"] > 0)
        ck.event("completed runs with postconditions checked")
        ck.event("runs with every constructor option and run() argument at its default", int(bool(cfg.get("all_defaults"))))
        ck.event("runs whose log-likelihood carries a constant of 720 ... 1e5 in absolute value", int(bool(cfg.get("shift"))))
        ck.event("posterior() option combinations called", val["combos"])
        ck.event("finished runs re-opened from their final checkpoint", val.get("reopened", 0))
        ck.event("second run() on the same sampler object judged", val.get("rerun", 0))
        ck.event("runs that returned with a temperature strictly inside (1 - 1e-4, 1) (injected ESS limit)", val.get("ended_below_one", 0))
        ck.event("runs continued with another particle count (stored batches of different sizes)", val.get("ragged", 0))
        ck.event("posterior rows identified through the evaluation log", val["rows"])
        seen = set()
        for key, what in val["bad"]:
            if (key,) in seen:
                continue
            seen.add((key,))
            ck.violation(key, what, dict(cfg=cfg))
    rl = [("tvf.checks.c12:reload_case", dict(cfg=dict(target=["gauss2", "bimodal", "expface"][j % 3], N=[32, 48][j % 2], n_total=[96, 144][j % 2], kernel=["tpcn", "rwm"][j % 2],
                                                     resample=["mult", "syst"][j % 2], clustering=bool(j % 2), mode=["vec", "blobs", "scalar"][j % 3], seed=ck.subseed("reload", j) % 10 ** 6)), None)
          for j in range(ck.pick(4, 24))]
    for i, st, val in farm.run(rl, timeout=900, progress="C12-reload"):
        kw = rl[i][1]
        if st != "ok":
            ck.inconc(f"reload case {kw}: {st} {str(val)[-300:]}")
            continue
        ck.case(dict(reload=kw), nontrivial=True)
        ck.event("finished samplers that had another run's final state loaded (posterior / evidence judged)")
        ck.event("... of which the loaded history had the same number of iterations and of stored samples", val["same_shape"])
        for key, what in val["bad"]:
            ck.violation(key, what, kw)
    bt = [("tvf.checks.c12:big_history_case", dict(seed=ck.subseed("big", 0), N=7000, T=20, real=False), None)]
    if not ck.quick:
        bt += [("tvf.checks.c12:big_history_case", dict(seed=ck.subseed("big", 1), N=2 ** 15 + 3, T=9, real=False), None),
               ("tvf.checks.c12:big_history_case", dict(seed=ck.subseed("big", 2), N=6000, T=20, real=True), None)]
    for i, st, val in farm.run(bt, timeout=2400, progress="C12-big"):
        kw = bt[i][1]
        if st != "ok":
            ck.inconc(f"big history case {kw}: {st} {str(val)[-300:]}")
            continue
        ck.case(dict(big=kw, rows=val["rows"]), nontrivial=val["rows"] > 2 ** 17)
        ck.event("posterior() judged on a stored history of more than 2**17 rows", int(val["rows"] > 2 ** 17))
        if val["real"]:
            ck.event("real runs with more than 2**17 stored rows (evidence recomputed)", int(val["rows"] > 2 ** 17))
        for key, what in val["bad"]:
            ck.violation(key, what, dict(big=kw))
    ck.require_events("completed runs with postconditions checked", "posterior() option combinations called",
                      "posterior rows identified through the evaluation log", "posterior() judged on a stored history of more than 2**17 rows")
    return ck.finish(
        rule="pairwise (quick, first 8 rows) / 3-wise (thorough) covering array over target x kernel x resampler x clustering x "
             "vec/scalar/blobs x metric mode x N x n_total/N; after each completed run all 16 posterior() flag combinations x trimming "
             "parameters; rows identified by x bytes / blob id in the instrumented likelihood's evaluation log; "
             "non-trivial = at least one posterior() combination returned",
        assumptions=["log-weights are compared up to one additive constant per call (normalisation is not prescribed by the property)"],
    )

"""C09 - seeded runs are reproducible and the library never resets the global RNG.

(a) two constructions+runs with equal random_state (ambient stream deliberately perturbed
    in between) must give bit-identical histories / weights / evidence; different seeds
    must give different ones;
(b) for every library operation: executed under two different ambient seeds, the global
    stream state at exit (and the next draws) must differ, and must differ from the state a
    fixed reseed would produce; the RNG tap's reseed log names file:line of any reseed.
"""
from __future__ import annotations

import contextlib
import io
import os

import numpy as np

from tvf import farm, runs
from tvf.env import Check, digest, fmt_exc
from tvf.tap import Tap, state_hash


def run_digest(cfg, ambient, perturb):
    np.random.seed(ambient)
    np.random.rand(perturb)
    s, t, like, pt = runs.build(cfg)
    from tvf import attach
    with attach.Hooks() as hk:
        attach.iteration_budget(hk, 400)
        with Tap() as tap:
            s.run(n_total=runs.full(cfg)["n_total"], progress=runs.prog(cfg))
    H = runs.history(s)
    x, w, l = s.posterior(trim_importance_weights=False)
    after = float(np.random.rand())
    import hashlib
    rows = set()
    for ub in H["u"]:
        for r_ in np.ascontiguousarray(ub):
            rows.add(hashlib.sha1(r_.tobytes()).hexdigest()[:16])
    return dict(dg=digest(H), post=digest(x, w, l), logz=float(s.evidence()[0]), n_iter=len(H["beta"]), rows=rows,
                reseeds=[(a, b, str(c)) for a, b, c in tap.reseeds], after=after)


def resume_repro_case(cfg, rs):
    """construct(random_state) + run(save_every) -> resume twice from a mid-run checkpoint: the two resumed runs must be bit-identical."""
    import shutil
    from tvf.checks.c08 import tmpdir
    tmp = tmpdir()
    try:
        c = dict(runs.full(cfg), random_state=rs, output_dir=tmp, output_label="r9")
        np.random.seed(5)
        s, t, like, pt = runs.build(c)
        s.run(n_total=c["n_total"], progress=runs.prog(c), save_every=1)
        files = sorted((f for f in os.listdir(tmp) if f.startswith("r9_") and "final" not in f), key=lambda f: int(f.split("_")[1].split(".")[0]))
        if len(files) < 2:
            return [], 0
        pick = os.path.join(tmp, files[len(files) // 2])
        dg = []
        for amb in (17, 23456):
            np.random.seed(amb)
            np.random.rand(amb % 7)
            s2, _, _, _ = runs.build(c)
            s2.run(n_total=c["n_total"], progress=runs.prog(c), resume_state_path=pick)
            dg.append((digest(runs.history(s2)), float(s2.evidence()[0])))
        if dg[0] != dg[1]:
            return [("seeded-run-not-reproducible", f"resuming twice from the same checkpoint with random_state={rs}: logZ {dg[0][1]!r} vs {dg[1][1]!r}")], len(files)
        return [], len(files)
    finally:
        shutil.rmtree(tmp, ignore_errors=True)


def repro_case(cfg, rs_a, rs_b):
    """Same random_state twice (different ambient) + a different random_state."""
    bad = []
    r1 = run_digest(dict(cfg, random_state=rs_a), ambient=11, perturb=3)
    r2 = run_digest(dict(cfg, random_state=rs_a), ambient=9999, perturb=17)
    r3 = run_digest(dict(cfg, random_state=rs_b), ambient=11, perturb=3)
    if r1["dg"] != r2["dg"] or r1["post"] != r2["post"] or r1["logz"] != r2["logz"]:
        bad.append(("seeded-run-not-reproducible", f"two constructions+runs with random_state={rs_a}: logZ {r1['logz']!r} vs {r2['logz']!r}, "
                    f"{r1['n_iter']} vs {r2['n_iter']} iterations, histories {'equal' if r1['dg'] == r2['dg'] else 'differ'}"))
    if r1["dg"] == r3["dg"]:
        bad.append(("different-seeds-same-run", f"random_state={rs_a} and {rs_b} give identical histories"))
    # differently seeded runs must not share *any* particle (neighbouring seeds included): shared innovations in part of a run
    r4 = run_digest(dict(cfg, random_state=rs_b + 1), ambient=11, perturb=3)
    for (sa, ra), (sb, rb) in (((rs_a, r1), (rs_b, r3)), ((rs_a, r1), (rs_b + 1, r4)), ((rs_b, r3), (rs_b + 1, r4))):
        shared = len(ra["rows"] & rb["rows"])
        if shared and ra["dg"] != rb["dg"]:
            bad.append(("different-seeds-share-particles", f"runs with random_state={sa} and {sb} have {shared} particles in common "
                        f"(of {len(ra['rows'])} / {len(rb['rows'])} distinct ones): part of their innovations is identical"))
            break
    # reseeds observed inside a run must carry the user's random_state
    for fn, caller, val in r1["reseeds"]:
        if "cluster.py" in caller:
            continue     # judged by the stream-state monitor (state is restored at exit)
        if str(val) != str(rs_a):
            bad.append(("reseed-with-constant", f"np.random.{fn}({val}) called from {caller} during a run with random_state={rs_a}"))
    return bad, r1["n_iter"]


def boundary_seeds_case(cfg):
    """Every valid seed value is its own run: the ends of numpy's seed range and the 31/32-bit boundaries, pairwise."""
    from tempest.tools import systematic_resample
    bad = []
    seeds = [0, 1, 2 ** 31 - 1, 2 ** 31, 2 ** 32 - 2, 2 ** 32 - 1]
    runs_ = {}
    for rs in seeds:
        try:
            runs_[rs] = run_digest(dict(cfg, random_state=rs), ambient=11, perturb=3)
        except Exception as e:
            bad.append(("valid-seed-rejected", f"random_state={rs} (a valid numpy seed): {type(e).__name__}: {e}"))
    ks = sorted(runs_)
    for i, a in enumerate(ks):
        for b in ks[i + 1:]:
            if runs_[a]["dg"] == runs_[b]["dg"]:
                bad.append(("different-seeds-same-run", f"random_state={a} and random_state={b} give identical histories"))
            elif runs_[a]["rows"] & runs_[b]["rows"]:
                bad.append(("different-seeds-share-particles", f"runs with random_state={a} and {b} have {len(runs_[a]['rows'] & runs_[b]['rows'])} particles in common"))
    w = np.random.default_rng(5).dirichlet(np.ones(40))
    idx = {}
    for rs in seeds:
        st = np.random.get_state()
        try:
            idx[rs] = np.asarray(systematic_resample(64, w.copy(), random_state=rs)).tobytes()
        except Exception as e:
            bad.append(("valid-seed-rejected", f"systematic_resample(random_state={rs}): {type(e).__name__}: {e}"))
        np.random.set_state(st)
    for i, a in enumerate(sorted(idx)):
        for b in sorted(idx)[i + 1:]:
            if idx[a] == idx[b]:
                # 64 teeth over 40 weights: two different offsets give the same index vector only if they fall into one cell
                # of the comb partition (~100 cells): a coincidence of probability ~1e-2 per pair - require a second witness
                w2 = np.random.default_rng(6).dirichlet(np.ones(400))
                st = np.random.get_state()
                same2 = np.asarray(systematic_resample(640, w2.copy(), random_state=a)).tobytes() == np.asarray(systematic_resample(640, w2.copy(), random_state=b)).tobytes()
                np.random.set_state(st)
                if same2:
                    bad.append(("different-seeds-same-run", f"systematic_resample with random_state={a} and {b} uses the same offset"))
    return bad, len(runs_)


# ---------------------------------------------------------------------------- operations
def _pool(rng, n=200, d=2):
    u = np.clip(0.5 + 0.15 * rng.standard_normal((n, d)), 0.01, 0.99)
    u[: n // 2, 0] = np.clip(u[: n // 2, 0] - 0.3, 0.01, 0.99)
    w = rng.dirichlet(np.ones(n))
    return u, w


def operations(rng):
    """name -> callable performing one library operation (fresh objects each call)."""
    from tempest.cluster import GaussianMixture, HierarchicalGaussianMixture
    from tempest.modes import ModeStatistics
    from tempest import tools
    u, w = _pool(rng)
    labels = (u[:, 0] > 0.4).astype(int)
    ops = {}
    ops["GaussianMixture.fit(random_state=None)"] = lambda: GaussianMixture(2).fit(u, w)
    ops["GaussianMixture.fit(random_state=7)"] = lambda: GaussianMixture(2, random_state=7).fit(u, w)
    ops["GaussianMixture.fit(diag,n_init=3,random_state=1)"] = lambda: GaussianMixture(3, covariance_type="diag", n_init=3, random_state=1).fit(u)
    ops["HierarchicalGaussianMixture.fit"] = lambda: HierarchicalGaussianMixture(normalize=True).fit(u, w)
    ops["HierarchicalGaussianMixture.fit(cap=2)"] = lambda: HierarchicalGaussianMixture(max_iterations=1, min_points=8).fit(u, w)

    def fp():
        h = HierarchicalGaussianMixture()
        h.fit(u, w)
        h.predict(u)
        h.predict_proba(u[:5])
    ops["HierarchicalGaussianMixture.fit+predict+predict_proba"] = fp
    same = np.tile(u[:1], (24, 1))                                   # a data set of identical rows
    blob_dup = np.vstack([u[:60], np.tile(u[7:8], (30, 1))])            # an ordinary blob plus 30 copies of one point
    w_spike = np.concatenate([np.full(60, 1e-12), np.full(30, 1.0)])    # ... that carry all the weight
    ops["HierarchicalGaussianMixture.fit(identical rows)"] = lambda: HierarchicalGaussianMixture().fit(same)
    ops["HierarchicalGaussianMixture.fit(blob + 30 copies of one point)"] = lambda: HierarchicalGaussianMixture(min_points=4).fit(blob_dup)
    ops["HierarchicalGaussianMixture.fit(weight on the copies, normalize)"] = lambda: HierarchicalGaussianMixture(min_points=4, normalize=True).fit(blob_dup, w_spike)
    ops["GaussianMixture(2).fit(identical rows, random_state=3)"] = lambda: GaussianMixture(2, random_state=3).fit(same)
    ops["ModeStatistics.from_particles"] = lambda: ModeStatistics.from_particles(u, w, labels)
    ops["ModeStatistics.from_global"] = lambda: ModeStatistics.from_global(u, w)
    ops["tools.systematic_resample"] = lambda: tools.systematic_resample(50, w)
    ops["tools.trim_weights+ess+volume"] = lambda: (tools.trim_weights(np.arange(len(w)), w.copy()), tools.effective_sample_size(w), tools.volume_variation(u, w))
    return ops


def reuse_ops(rng):
    """name -> factory: builds ONE object, performs the operation once under a fixed seed (preparation), and returns the
    callable that performs it again on the same object.  Whatever an object remembers from an earlier call (a saved
    stream state, a cached seed) must not decide the stream after a later call."""
    from tempest.cluster import GaussianMixture, HierarchicalGaussianMixture
    u, w = _pool(rng)
    u2, w2 = _pool(rng, n=120, d=3)

    def twice(make, first, second):
        def factory():
            obj = make()
            np.random.seed(4242)
            with np.errstate(all="ignore"):
                first(obj)
            return lambda: second(obj)
        return factory
    ops = {}
    ops["GaussianMixture(random_state=7): second fit on the same object"] = twice(lambda: GaussianMixture(2, random_state=7), lambda g: g.fit(u, w), lambda g: g.fit(u, w))
    ops["GaussianMixture(random_state=7): second fit on other data"] = twice(lambda: GaussianMixture(2, random_state=7), lambda g: g.fit(u, w), lambda g: g.fit(u2, w2))
    ops["GaussianMixture(random_state=None): second fit"] = twice(lambda: GaussianMixture(2), lambda g: g.fit(u), lambda g: g.fit(u, w))
    ops["GaussianMixture(diag,n_init=3,random_state=1): third fit"] = twice(lambda: GaussianMixture(3, covariance_type="diag", n_init=3, random_state=1),
                                                                             lambda g: (g.fit(u), g.fit(u2)), lambda g: g.fit(u, w))
    ops["GaussianMixture(random_state=7): predict after fit"] = twice(lambda: GaussianMixture(2, random_state=7), lambda g: g.fit(u, w), lambda g: (g.predict(u), g.predict_proba(u[:5])))
    ops["HierarchicalGaussianMixture: second fit on the same object"] = twice(lambda: HierarchicalGaussianMixture(normalize=True), lambda h: h.fit(u, w), lambda h: h.fit(u, w))
    ops["HierarchicalGaussianMixture: second fit on other data"] = twice(lambda: HierarchicalGaussianMixture(), lambda h: h.fit(u, w), lambda h: h.fit(u2, w2))
    ops["HierarchicalGaussianMixture(cap=2): fit, predict, fit"] = twice(lambda: HierarchicalGaussianMixture(max_iterations=1, min_points=8),
                                                                        lambda h: (h.fit(u, w), h.predict(u)), lambda h: h.fit(u))
    return ops


def sampler_ops(cfg):
    """operations on a live sampler, each preceded by a deterministic warm start."""
    def prep(n_iter):
        np.random.seed(4242)
        s, t, like, pt = runs.build(cfg)
        s._core._initialize_fresh()
        s._core.n_total = 10 ** 6
        for _ in range(n_iter):
            s.sample()
        return s
    ops = {}
    ops["Sampler() construction (random_state=None)"] = lambda: (lambda: runs.build(cfg))
    ops["Sampler.sample() warm-up iteration"] = lambda: prep(0).sample
    for nm, k in (("Sampler.sample() annealing iteration", 4), ("Sampler.sample() late iteration", 7)):
        ops[nm] = (lambda k=k: prep(k).sample)
    ops["Reweighter.run"] = lambda: prep(5)._core.reweighter.run

    def tr():
        s = prep(5)
        w = s._core.reweighter.run()
        return lambda: s._core.trainer.run(w)
    ops["Trainer.run"] = tr

    def rs():
        s = prep(5)
        w = s._core.reweighter.run()
        s._core.trainer.run(w)
        return lambda: s._core.resampler.run(w)
    ops["Resampler.run"] = rs

    def mu():
        s = prep(5)
        w = s._core.reweighter.run()
        ms = s._core.trainer.run(w)
        s._core.resampler.run(w)
        return lambda: s._core.mutator.run(ms)
    ops["Mutator.run"] = mu
    ops["Sampler.posterior(resample=True)"] = lambda: (lambda s=prep(6): s.posterior(resample=True))
    ops["Sampler.posterior()+results()+evidence()"] = lambda: (lambda s=prep(6): (s.posterior(), s.results(), s.evidence()))
    return ops


def op_case(kind, name, cfg, gen_seed):
    """Run operation `name` under ambient seeds a,b (and twice under a).  Returns (bad, witness)."""
    bad = []
    rng = np.random.default_rng(gen_seed)
    res = {}
    for amb in (101, 202, 303):
        if kind == "lib":
            f = operations(np.random.default_rng(gen_seed))[name]
            np.random.seed(amb)
        elif kind == "reuse":
            f = reuse_ops(np.random.default_rng(gen_seed))[name]()      # first call under seed 4242, returns the second call
            np.random.seed(amb)
        else:
            f = sampler_ops(cfg)[name]()      # warm start (reseeds to 4242 inside), returns the op
            np.random.seed(amb)
        pre = state_hash()
        with Tap() as tap, contextlib.redirect_stdout(io.StringIO()), np.errstate(all="ignore"):
            try:
                f()
            except Exception:
                if kind not in ("lib", "reuse"):
                    raise              # sampler operations must not raise; library fits on degenerate data may
        res[amb] = (state_hash(), float(np.random.rand()), [(a, b, str(c)) for a, b, c in tap.reseeds], tap.total)
    hashes = {res[a][0] for a in res}
    nxt = {res[a][1] for a in res}
    if len(hashes) < len(res) or len(nxt) < len(res):
        who = sorted({r for a in res for r in map(str, res[a][2])})
        bad.append(("global-rng-reset-to-constant", f"after {name} the global stream is identical under ambient seeds 101/202/303 "
                    f"(next draw {sorted(nxt)}); reseeds seen: {who[:3]}"))
    consumed = max(r[3] for r in res.values() if len(r) > 3) if any(len(r) > 3 for r in res.values()) else 0
    return bad, dict(op=name, reseed_calls=sum(len(res[a][2]) for a in res), draws=consumed)


def run():
    ck = Check("C09")
    # (a) reproducibility of seeded runs
    ncfg = ck.pick(8, 32)
    seeds = ck.pick(1, 5)
    tasks = []
    for i in range(ncfg):
        cfg = dict(runs.small_cfg(i), seed=0)
        for r in range(seeds):
            ra = ck.subseed("rs", i, r) % 100000
            tasks.append(("tvf.checks.c09:repro_case", dict(cfg=cfg, rs_a=ra, rs_b=ra + 1), None))
    extra = [dict(target="support", tkw=dict(f=0.5), N=48, n_total=144, clustering=True, kernel="tpcn", mode="blobs", ess_ratio=3.0),
             dict(target="bimodal", tkw=dict(sep=5.0, p=0.5), N=96, n_total=288, clustering=True, kernel="rwm", mode="vec", split_threshold=0.5, cluster_every=2),
             dict(target="gauss4", N=48, n_total=144, clustering=True, kernel="tpcn", mode="scalar", volume_variation=1.0, n_max_clusters=3, resample="syst")]
    # likelihood evaluated through worker processes / threads (the parent's stream must not notice)
    extra += [dict(target="gauss2", N=32, n_total=96, clustering=False, kernel="tpcn", mode="scalar", pool=2),
              dict(target="bimodal", N=32, n_total=96, clustering=True, kernel="rwm", mode="blobs", pool=3, resample="syst"),
              dict(target="gauss2", N=32, n_total=96, clustering=True, kernel="tpcn", mode="scalar", pool="tpe"),
              dict(target="expface", N=32, n_total=96, clustering=False, kernel="rwm", mode="scalar", pool=1)]
    for j, cfg in enumerate(extra):
        ra = ck.subseed("rsx", j) % 100000
        tasks.append(("tvf.checks.c09:repro_case", dict(cfg=dict(cfg, seed=0), rs_a=ra, rs_b=ra + 1), None))
    btasks = [("tvf.checks.c09:boundary_seeds_case", dict(cfg=dict(runs.small_cfg(j), seed=0, N=24, n_total=48)), None) for j in range(ck.pick(2, 8))]
    for i, st, val in farm.run(btasks, timeout=600, progress="C09-seeds"):
        kw = btasks[i][1]
        if st != "ok":
            ck.violation("run-crashed", f"boundary seeds {kw['cfg']}: {st} {str(val)[-300:]}", kw)
            continue
        bad, nr = val
        ck.case(dict(boundary_seeds=kw), nontrivial=nr > 1)
        ck.event("runs seeded at the ends of the valid seed range and at the 31/32-bit boundaries, compared pairwise", nr)
        for key, what in bad:
            ck.violation(key, what, kw)
    rtasks = [("tvf.checks.c09:resume_repro_case", dict(cfg=dict(runs.small_cfg(i), seed=0), rs=ck.subseed("rr", i) % 100000), None) for i in range(ck.pick(4, 24))]
    for i, st, val in farm.run(rtasks, timeout=600, progress="C09-resume"):
        kw = rtasks[i][1]
        if st != "ok":
            ck.violation("run-crashed", f"resume reproducibility {kw['cfg']}: {st} {str(val)[-300:]}", kw)
            continue
        bad, nck = val
        ck.case(dict(resume_repro=kw), nontrivial=nck > 1)
        ck.event("seeded resume pairs compared bitwise")
        for key, what in bad:
            ck.violation(key, what, kw)
    for i, st, val in farm.run(tasks, timeout=600, progress="C09-repro"):
        kw = tasks[i][1]
        if st == "timeout":
            ck.inconc(f"repro {kw['cfg']}: watchdog")
            continue
        if st != "ok":
            ck.violation("run-crashed", f"{kw['cfg']}: {st} {str(val)[-400:]}", kw)
            continue
        bad, nit = val
        ck.case(dict(repro=kw), nontrivial=nit > 2)
        ck.event("seeded construct+run pairs compared bitwise")
        if tasks[i][1]["cfg"].get("pool") is not None:
            ck.event("... of which the likelihood is evaluated through an integer pool / executor")
        for key, what in bad:
            ck.violation(key, what, kw)
    # (b) stream state after library operations
    otasks = []
    for g in range(ck.pick(2, 8)):
        for name in operations(np.random.default_rng(0)).keys():
            otasks.append(("tvf.checks.c09:op_case", dict(kind="lib", name=name, cfg=None, gen_seed=ck.subseed("lib", g)), None))
        for name in reuse_ops(np.random.default_rng(0)).keys():
            otasks.append(("tvf.checks.c09:op_case", dict(kind="reuse", name=name, cfg=None, gen_seed=ck.subseed("reuse", g)), None))
    scfgs = [dict(target="bimodal", N=48, clustering=True, kernel="tpcn", mode="vec"),
             dict(target="gauss2", N=32, clustering=False, kernel="rwm", mode="scalar", resample="syst")]
    if not ck.quick:
        scfgs += [dict(target="bimodal", N=64, clustering=True, kernel="rwm", mode="blobs", cluster_every=2),
                  dict(target="vonmises", N=48, clustering=True, kernel="tpcn", mode="vec", volume_variation=1.0)]
    for cfg in scfgs:
        for name in sampler_ops(cfg).keys():
            otasks.append(("tvf.checks.c09:op_case", dict(kind="sampler", name=name, cfg=cfg, gen_seed=0), None))
    # the same operations on a sampler that was constructed WITH a random_state: only construction (and loading a
    # checkpoint) may seed the stream with it; no later operation may put the stream back to a state fixed by it
    for cfg in scfgs[:2]:
        cfg_rs = dict(cfg, random_state=77)
        for name in sampler_ops(cfg_rs).keys():
            if name.startswith("Sampler() construction"):
                continue
            otasks.append(("tvf.checks.c09:op_case", dict(kind="sampler", name=name, cfg=cfg_rs, gen_seed=0), None))
    for i, st, val in farm.run(otasks, timeout=600, progress="C09-ops"):
        kw = otasks[i][1]
        if st == "timeout":
            ck.inconc(f"op {kw['name']}: watchdog")
            continue
        if st != "ok":
            ck.violation("operation-crashed", f"{kw['name']}: {st} {str(val)[-400:]}", kw)
            continue
        bad, wit = val
        ck.case(dict(operation=kw["name"], cfg=kw["cfg"], gen=kw["gen_seed"]), nontrivial=True)
        ck.event("library operations probed under 3 ambient seeds")
        if kw["kind"] == "reuse":
            ck.event("... of which repeated on an object that had performed the operation before")
        ck.event("np.random reseed calls logged by the tap", wit["reseed_calls"])
        for key, what in bad:
            ck.violation(key, what, kw)
    ck.require_events("seeded construct+run pairs compared bitwise", "library operations probed under 3 ambient seeds")
    return ck.finish(
        rule="(a) configurations from runs.small_cfg x random_state values: construct+run twice with the ambient stream perturbed in between, "
             "compare sha256 of full history, posterior and evidence; runs with random_state+1 and +2 must differ and share no particle with it or with each other; (b) each library operation "
             "(mixture fits, hierarchical fit/predict, mode statistics, resampling, every pipeline step, sample/posterior/results, construction) "
             "executed under ambient seeds 101/202/303: stream state and next draw at exit must be pairwise different; non-trivial = run had > 2 iterations",
        assumptions=["seeding the global stream with the *user's* random_state (construction, checkpoint load) is the documented reproducibility mechanism, not a reset to a fixed value"],
    )

"""Auxiliary workload: run the repository's own test suite with contract monitors attached
to the pure functions (C04/C06/C16/C20).  Loaded with `pytest -p tvf.pytest_plugin`.

Every monitored call is judged by the same oracles the checks use; violations and call
counts are appended to $TVF_CONTRACT_LOG (JSON lines).  A monitor that cannot recognise its
input (mocks, deliberately invalid arguments in negative tests) records "skipped".
"""
from __future__ import annotations

import functools
import json
import os

import numpy as np

LOG = os.environ.get("TVF_CONTRACT_LOG")
COUNTS = {}
BAD = []


def _note(name, ok=True, what=None):
    COUNTS[name] = COUNTS.get(name, 0) + 1
    if not ok and len(BAD) < 200:
        BAD.append(dict(contract=name, what=str(what)[:400]))


def _wrap(mod, name, post):
    orig = getattr(mod, name)

    @functools.wraps(orig)
    def w(*a, **k):
        args = [x.copy() if isinstance(x, np.ndarray) else x for x in a]
        r = orig(*a, **k)
        try:
            post(r, args, k)
        except _Skip:
            _note(name + ":skipped")
        except Exception as e:  # monitor failure is not a verdict
            _note(name + ":monitor-error", True, e)
        return r
    setattr(mod, name, w)
    return orig


class _Skip(Exception):
    pass


def pytest_configure(config):
    import tempest.tools as tools
    import tempest.mcmc as mcmc
    from tempest.state_manager import StateManager
    from tvf.oracles import comb_check, ess_ref, fold_periodic_exact, fold_reflect_exact, mis_ref
    from fractions import Fraction

    def post_ess(r, a, k):
        w = np.asarray(a[0], float)
        if w.ndim != 1 or len(w) == 0 or np.any(w < 0) or not np.isfinite(w).all() or w.sum() <= 0:
            raise _Skip()
        ref = float(ess_ref(w))
        ok = 1 - 1e-9 <= r <= len(w) * (1 + 1e-9) and abs(r - ref) <= 1e-9 * ref
        _note("effective_sample_size", ok, f"ESS={r!r} ref={ref!r} n={len(w)}")
    _wrap(tools, "effective_sample_size", post_ess)

    def post_trim(r, a, k):
        samples, w = a[0], np.asarray(a[1], float)
        frac = k.get("ess", a[2] if len(a) > 2 else 0.99)
        if w.ndim != 1 or np.any(w < 0) or w.sum() <= 0 or not (0 < frac < 1):
            raise _Skip()
        s_out, w_out = r
        wn = w / w.sum()
        e0 = float(ess_ref(wn))
        e1 = float(ess_ref(w_out))
        ok = len(s_out) == len(w_out) and abs(float(np.sum(w_out)) - 1) < 1e-9 and e1 >= frac * e0 * (1 - 1e-9)
        _note("trim_weights", ok, f"len {len(s_out)}/{len(w_out)} sum {np.sum(w_out)!r} ess {e1}/{e0} frac {frac}")
    _wrap(tools, "trim_weights", post_trim)

    def post_abc(r, a, k):
        u = np.asarray(a[0], float)
        per = k.get("periodic", a[1] if len(a) > 1 else None)
        ref = k.get("reflective", a[2] if len(a) > 2 else None)
        if not np.isfinite(u).all() or u.size > 20000:
            raise _Skip()
        ok = True
        what = None
        flat_in = u.reshape(-1, u.shape[-1])
        flat_out = np.asarray(r, float).reshape(-1, u.shape[-1])
        for idxs, ex in ((per, fold_periodic_exact), (ref, fold_reflect_exact)):
            if idxs is None:
                continue
            for i in idxs:
                for vin, vout in zip(flat_in[:200, i], flat_out[:200, i]):
                    e = ex(float(vin))
                    err = abs(Fraction(float(vout)) - e)
                    if ex is fold_periodic_exact:
                        err = min(err, abs(Fraction(float(vout)) - e - 1))
                    if err > Fraction(2.0 ** -53) or not (0 <= vout <= 1):
                        ok, what = False, f"fold of {vin!r} = {vout!r}, exact {float(e)!r}"
        _note("apply_boundary_conditions", ok, what)
    _wrap(mcmc, "apply_boundary_conditions", post_abc)

    orig_lw = StateManager.compute_logw_and_logz

    @functools.wraps(orig_lw)
    def lw(self, beta_final=1.0, normalize=True):
        r = orig_lw(self, beta_final, normalize)
        try:
            H = self._history
            if len(H["beta"]) and len(H["beta"]) == len(H["logl"]) == len(H["logz"]) and all(np.isfinite(np.asarray(l, float)).all() for l in H["logl"]):
                ru, rn, rz, _ = mis_ref(H["logl"], H["beta"], H["logz"], beta_final)
                ref = rn if normalize else ru
                sc = 1 + max(float(np.max(np.abs(np.concatenate([np.asarray(l, float) for l in H["logl"]])))), float(np.max(np.abs(np.asarray(H["logz"], float)))))
                ok = float(np.max(np.abs(np.asarray(r[0], dtype=np.longdouble) - ref))) <= 1e-9 * sc and abs(float(r[1]) - float(rz)) <= 1e-9 * sc
                _note("compute_logw_and_logz", ok, f"T={len(H['beta'])} beta={beta_final}")
            else:
                _note("compute_logw_and_logz:skipped")
        except Exception as e:
            _note("compute_logw_and_logz:monitor-error", True, e)
        return r
    StateManager.compute_logw_and_logz = lw

    # systematic_resample: record the offset actually drawn, then validate the comb
    orig_sr = tools.systematic_resample
    import tempest.steps.resample as rs_mod

    @functools.wraps(orig_sr)
    def sr(size, weights, random_state=None):
        real = np.random.random
        seen = []

        def rec(*a, **k):
            v = real(*a, **k)
            seen.append(v)
            return v
        np.random.random = rec
        try:
            r = orig_sr(size, weights, random_state)
        finally:
            np.random.random = real
        try:
            w = np.asarray(weights, float)
            if len(seen) == 1 and w.ndim == 1 and np.all(w >= 0) and w.sum() > 0:
                if abs(w.sum() - 1) > 1.4901161193847656e-08:
                    w = w / w.sum()
                bad = comb_check(int(size), w, float(seen[0]), r)
                _note("systematic_resample", not bad, bad[:1])
            else:
                _note("systematic_resample:skipped")
        except Exception as e:
            _note("systematic_resample:monitor-error", True, e)
        return r
    tools.systematic_resample = sr
    rs_mod.systematic_resample = sr


def pytest_unconfigure(config):
    if LOG:
        with open(LOG, "a") as f:
            f.write(json.dumps(dict(counts=COUNTS, bad=BAD)) + "\n")

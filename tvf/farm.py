"""Process farm: forked workers, one task at a time each, per-task watchdog.

A task is (func_qualname, kwargs).  Results are ("ok", value) | ("exc", traceback) |
("timeout", None) | ("died", exitcode).  A watchdog firing or a dead worker is reported,
never interpreted here (the checks fold it into *inconclusive* unless the property is
about crashes).
"""
from __future__ import annotations

import importlib
import multiprocessing as mp
import os
import sys
import time
import traceback
from multiprocessing.connection import wait

import numpy as np

NCPU = int(os.environ.get("TVF_JOBS", "0") or 0) or min(16, os.cpu_count() or 4)


def _resolve(name):
    mod, fn = name.rsplit(":", 1)
    return getattr(importlib.import_module(mod), fn)


def _die_with_parent():
    """A worker whose parent is killed (a harness timeout around the whole check) must not stay behind: the other workers'
    inherited pipe ends keep recv() from ever seeing EOF.  Linux: SIGKILL on parent death."""
    try:
        import ctypes
        import signal
        ctypes.CDLL(None, use_errno=True).prctl(1, int(signal.SIGKILL), 0, 0, 0)      # PR_SET_PDEATHSIG
        if os.getppid() == 1:
            os._exit(0)
    except Exception:
        pass


def _worker(conn):
    import warnings
    warnings.simplefilter("ignore")
    _die_with_parent()
    devnull = open(os.devnull, "w")
    while True:
        try:
            msg = conn.recv()
        except EOFError:
            return
        if msg is None:
            return
        idx, name, kwargs, seed, quiet = msg
        try:
            if seed is not None:
                np.random.seed(seed)
            fn = _resolve(name)
            if quiet:
                old = sys.stdout, sys.stderr
                sys.stdout = sys.stderr = devnull
            try:
                val = fn(**kwargs)
            finally:
                if quiet:
                    sys.stdout, sys.stderr = old
            conn.send((idx, "ok", val))
        except BaseException as e:  # noqa
            conn.send((idx, "exc", f"{type(e).__name__}: {e}\n" + traceback.format_exc(limit=10)))


class _W:
    def __init__(self, ctx):
        self.parent, child = ctx.Pipe()
        self.proc = ctx.Process(target=_worker, args=(child,), daemon=True)
        self.proc.start()
        child.close()
        self.task = None
        self.deadline = None

    def kill(self):
        try:
            self.proc.kill()
            self.proc.join(2)
        except Exception:
            pass
        try:
            self.parent.close()
        except Exception:
            pass


def run(tasks, timeout=300.0, jobs=None, quiet=True, progress=None):
    """tasks: list of (func 'module:name', kwargs, seed).  Yields (idx, status, value)."""
    tasks = list(tasks)
    n = len(tasks)
    if n == 0:
        return []
    jobs = min(jobs or NCPU, n)
    ctx = mp.get_context("fork")
    workers = [_W(ctx) for _ in range(jobs)]
    results = [None] * n
    nxt = 0
    done = 0
    t_last = time.time()
    try:
        while done < n:
            for w in workers:
                if w.task is None and nxt < n:
                    name, kwargs, seed = tasks[nxt]
                    w.task = nxt
                    w.deadline = time.time() + timeout
                    w.parent.send((nxt, name, kwargs, seed, quiet))
                    nxt += 1
            busy = [w for w in workers if w.task is not None]
            if not busy:
                break
            ready = wait([w.parent for w in busy], timeout=1.0)
            now = time.time()
            for i, w in enumerate(workers):
                if w.task is None:
                    continue
                if w.parent in ready:
                    try:
                        idx, st, val = w.parent.recv()
                        results[idx] = (st, val)
                    except (EOFError, OSError):
                        results[w.task] = ("died", w.proc.exitcode)
                        w.kill()
                        workers[i] = _W(ctx)
                        done += 1
                        continue
                    w.task = None
                    done += 1
                elif now > w.deadline:
                    results[w.task] = ("timeout", None)
                    w.kill()
                    workers[i] = _W(ctx)
                    done += 1
                elif not w.proc.is_alive():
                    results[w.task] = ("died", w.proc.exitcode)
                    w.kill()
                    workers[i] = _W(ctx)
                    done += 1
            if progress and now - t_last > 15:
                t_last = now
                print(f"  [{progress}] {done}/{n}", flush=True)
    finally:
        for w in workers:
            try:
                if w.task is None:
                    w.parent.send(None)
            except Exception:
                pass
            w.kill()
    return [(i,) + (r if r is not None else ("died", None)) for i, r in enumerate(results)]

"""Analytic targets on the unit cube (explicit prior transform) with closed-form truth."""
from __future__ import annotations

import math

import numpy as np
from scipy import special, stats


class Target:
    name = "?"
    n_dim = 1
    periodic = None
    reflective = None
    logz = 0.0

    def prior_transform(self, u):
        return self.lo + (self.hi - self.lo) * np.asarray(u)

    def loglike(self, x):  # vectorised over leading axis, also accepts (d,)
        raise NotImplementedError

    def functionals(self):
        """list of (name, f(x[n,d]) -> [n], truth, scale)"""
        raise NotImplementedError

    def estimates(self, x, w):
        out = {}
        for name, f, truth, scale in self.functionals():
            out[name] = float(np.sum(w * f(x)))
        return out

    def truths(self):
        return {name: (truth, scale) for name, f, truth, scale in self.functionals()}


class GaussBox(Target):
    """Correlated Gaussian well inside a box prior (T1)."""

    def __init__(self, d=2, rho=0.7, half=8.0, sd=1.0, shift=0.5):
        self.name = f"gauss{d}"
        self.n_dim = d
        self.lo = -half * np.ones(d)
        self.hi = half * np.ones(d)
        self.mu = shift * np.arange(1, d + 1) / d
        S = np.full((d, d), rho) + (1 - rho) * np.eye(d)
        sds = sd * (1.0 + 0.5 * np.arange(d) / max(1, d - 1)) if d > 1 else np.array([sd])
        self.Sigma = S * np.outer(sds, sds)
        self.Sinv = np.linalg.inv(self.Sigma)
        self.logdet = np.linalg.slogdet(self.Sigma)[1]
        self.logz = -float(np.sum(np.log(self.hi - self.lo)))
        self.sds = sds

    def loglike(self, x):
        x = np.asarray(x)
        dx = x - self.mu
        q = np.einsum("...i,ij,...j->...", dx, self.Sinv, dx)
        return -0.5 * q - 0.5 * self.logdet - 0.5 * self.n_dim * math.log(2 * math.pi)

    def functionals(self):
        fs = []
        for i in range(min(self.n_dim, 2)):
            m, s = self.mu[i], self.sds[i]
            fs.append((f"mean{i}", lambda x, i=i: x[:, i], m, s))
            fs.append((f"var{i}", lambda x, i=i, m=m: (x[:, i] - m) ** 2, s * s, s * s))
            for q in (0.1, 0.5, 0.9):
                c = m + s * stats.norm.ppf(q)
                fs.append((f"cdf{i}@{q}", lambda x, i=i, c=c: (x[:, i] < c).astype(float), q, 1.0))
        if self.n_dim > 1:
            cv = self.Sigma[0, 1]
            fs.append(("cov01", lambda x: (x[:, 0] - self.mu[0]) * (x[:, 1] - self.mu[1]), cv,
                       self.sds[0] * self.sds[1]))
        return fs


class Bimodal(Target):
    """Two separated Gaussians with masses 0.7/0.3 (T2)."""

    def __init__(self, d=2, sep=6.0, s=0.5, half=10.0, p=0.7):
        self.name = f"bimodal{d}"
        self.n_dim = d
        self.lo = -half * np.ones(d)
        self.hi = half * np.ones(d)
        self.m1 = np.zeros(d)
        self.m1[0] = -sep / 2
        self.m2 = np.zeros(d)
        self.m2[0] = sep / 2
        self.s = s
        self.p = p
        self.logz = -float(np.sum(np.log(self.hi - self.lo)))

    def loglike(self, x):
        x = np.asarray(x)
        d = self.n_dim
        c = -0.5 * d * math.log(2 * math.pi * self.s ** 2)
        a = math.log(self.p) + c - 0.5 * np.sum((x - self.m1) ** 2, axis=-1) / self.s ** 2
        b = math.log(1 - self.p) + c - 0.5 * np.sum((x - self.m2) ** 2, axis=-1) / self.s ** 2
        return np.logaddexp(a, b)

    def functionals(self):
        p, s = self.p, self.s
        mean0 = p * self.m1[0] + (1 - p) * self.m2[0]
        var0 = s * s + p * (self.m1[0] - mean0) ** 2 + (1 - p) * (self.m2[0] - mean0) ** 2
        fs = [("mass_left", lambda x: (x[:, 0] < 0).astype(float), p, 1.0),
              ("mean0", lambda x: x[:, 0], mean0, math.sqrt(var0)),
              ("var0", lambda x: (x[:, 0] - mean0) ** 2, var0, var0)]
        if self.n_dim > 1:
            fs.append(("mean1", lambda x: x[:, 1], 0.0, s))
            fs.append(("var1", lambda x: x[:, 1] ** 2, s * s, s * s))
        return fs


class ExpFace(Target):
    """Product of exponentials abutting the hard face u=0 (T3); reflective variant = T5."""

    def __init__(self, lam=(8.0, 3.0), reflective=False):
        self.lam = np.asarray(lam, float)
        self.n_dim = len(lam)
        self.name = "expface" + ("_refl" if reflective else "")
        self.lo = np.zeros(self.n_dim)
        self.hi = np.ones(self.n_dim)
        self.logz = float(np.sum(np.log1p(-np.exp(-self.lam))))
        if reflective:
            self.reflective = list(range(self.n_dim))

    def loglike(self, x):
        x = np.asarray(x)
        return np.sum(np.log(self.lam) - self.lam * x, axis=-1)

    def functionals(self):
        fs = []
        for i, l in enumerate(self.lam):
            Z = 1 - math.exp(-l)
            m = 1 / l - math.exp(-l) / Z
            ex2 = (2 / l ** 2 - math.exp(-l) * (1 + 2 / l + 2 / l ** 2)) / Z
            var = ex2 - m * m
            sd = math.sqrt(var)
            fs.append((f"mean{i}", lambda x, i=i: x[:, i], m, sd))
            fs.append((f"var{i}", lambda x, i=i, m=m: (x[:, i] - m) ** 2, var, var))
            for q in (0.1, 0.5, 0.9):
                c = -math.log(1 - q * Z) / l
                fs.append((f"cdf{i}@{q}", lambda x, i=i, c=c: (x[:, i] < c).astype(float), q, 1.0))
        return fs


class VonMises(Target):
    """von Mises on a periodic coordinate x Gaussian (T4)."""

    def __init__(self, kappa=2.0, m=0.3, mu=0.0, s=1.0, half=8.0, declare_periodic=True):
        self.name = "vonmises" + ("" if declare_periodic else "_hard")
        self.n_dim = 2
        self.kappa, self.m, self.mu, self.s = kappa, m, mu, s
        self.lo = np.array([0.0, -half])
        self.hi = np.array([2 * math.pi, half])
        if declare_periodic:
            self.periodic = [0]
        # Z = (1/2pi) int exp(k cos) dx * (1/(2 half)) int N = I0(k) / (2 half)
        self.logz = math.log(special.i0(kappa)) - math.log(2 * half)

    def loglike(self, x):
        x = np.asarray(x)
        return (self.kappa * np.cos(x[..., 0] - self.m)
                - 0.5 * ((x[..., 1] - self.mu) / self.s) ** 2 - 0.5 * math.log(2 * math.pi * self.s ** 2))

    def functionals(self):
        k = self.kappa
        r1 = special.i1(k) / special.i0(k)
        r2 = special.iv(2, k) / special.i0(k)
        # var of cos(theta) = E cos^2 - r1^2, E cos^2 = (1 + r2)/2
        sc = math.sqrt(max((1 + r2) / 2 - r1 * r1, 1e-12))
        ss = math.sqrt((1 - r2) / 2)
        return [("Ecos", lambda x: np.cos(x[:, 0] - self.m), r1, sc),
                ("Esin", lambda x: np.sin(x[:, 0] - self.m), 0.0, ss),
                ("Ecos2", lambda x: np.cos(2 * (x[:, 0] - self.m)), r2, 1.0),
                ("mean1", lambda x: x[:, 1], self.mu, self.s),
                ("var1", lambda x: (x[:, 1] - self.mu) ** 2, self.s ** 2, self.s ** 2)]


class Support(Target):
    """Gaussian likelihood that is zero (-inf) outside x0 < f*width: support fraction f (C11)."""

    def __init__(self, f=0.5, d=2, s=0.05):
        self.name = f"support{f}"
        self.n_dim = d
        self.f = f
        self.lo = np.zeros(d)
        self.hi = np.ones(d)
        self.s = s
        self.c = np.full(d, 0.5)
        self.c[0] = min(0.5, f) * 0.5 if f < 1 else 0.5
        # truncated at x0 < f: mass of N(c0, s) below f (and above 0) etc.
        z = 0.0
        for i in range(d):
            hi = f if (i == 0 and f < 1) else 1.0
            z += math.log(stats.norm.cdf((hi - self.c[i]) / s) - stats.norm.cdf((0 - self.c[i]) / s))
        self.logz = z

    def loglike(self, x):
        x = np.asarray(x)
        ll = np.sum(-0.5 * ((x - self.c) / self.s) ** 2 - 0.5 * math.log(2 * math.pi * self.s ** 2), axis=-1)
        if self.f < 1:
            ll = np.where(x[..., 0] < self.f, ll, -np.inf)
        return ll

    def functionals(self):
        return [("mean1", lambda x: x[:, 1], 0.5, self.s)]


class TailPrior(Target):
    """Standard-normal prior through the inverse CDF, likelihood far in the prior's tail: the posterior lives at
    u0 ~ 1e-14, i.e. closer to a cube face than any fixed epsilon a library might clip with."""

    def __init__(self, loc=-8.3, s=0.3):
        self.name = "tailprior"
        self.n_dim = 2
        self.loc, self.s = loc, s
        prec = 1.0 + 1.0 / s ** 2
        self.pm = (loc / s ** 2) / prec
        self.psd = math.sqrt(1.0 / prec)
        # Z = N(loc; 0, 1 + s^2) for coordinate 0, second coordinate: likelihood N(x1;0,1) x prior N(0,1) -> N(0; 0, 2)
        self.logz = float(stats.norm.logpdf(loc, 0, math.sqrt(1 + s ** 2)) + stats.norm.logpdf(0, 0, math.sqrt(2)))

    def prior_transform(self, u):
        return special.ndtri(np.asarray(u, float))

    def loglike(self, x):
        x = np.asarray(x)
        return stats.norm.logpdf(x[..., 0], self.loc, self.s) + stats.norm.logpdf(x[..., 1], 0.0, 1.0)

    def functionals(self):
        return [("mean0", lambda x: x[:, 0], self.pm, self.psd), ("mean1", lambda x: x[:, 1], 0.0, math.sqrt(0.5))]


def make(name, **kw):
    if name.startswith("gauss") and name[5:].isdigit() and int(name[5:]) not in (1, 2, 4):
        return GaussBox(int(name[5:]), **kw)
    return {
        "gauss2": lambda: GaussBox(2, **kw),
        "gauss4": lambda: GaussBox(4, **kw),
        "gauss1": lambda: GaussBox(1, rho=0.0, **kw),
        "bimodal": lambda: Bimodal(**kw),
        "expface": lambda: ExpFace(**kw),
        "expface_refl": lambda: ExpFace(reflective=True, **kw),
        "vonmises": lambda: VonMises(**kw),
        "vonmises_hard": lambda: VonMises(declare_periodic=False, **kw),
        "support": lambda: Support(**kw),
        "tailprior": lambda: TailPrior(**kw),
    }[name]()

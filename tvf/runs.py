"""Real Sampler runs from a configuration dictionary (shared by the sampler-level checks)."""
from __future__ import annotations

import numpy as np

from tvf import attach, idblob, targets
from tvf.env import digest

DEFAULTS = dict(target="gauss2", tkw={}, N=64, n_total=256, kernel="tpcn", resample="mult",
                clustering=False, mode="vec", ess_ratio=2.0, volume_variation=None,
                cluster_every=1, n_max_clusters=None, normalize=True, split_threshold=1.0,
                n_steps=None, n_max_steps=None, seed=0, shift=0.0, random_state=None, pool=None,
                bc="target")


def full(cfg):
    c = dict(DEFAULTS)
    c.update(cfg)
    return c


def small_cfg(i):
    """A deterministic family of small diverse configurations, indexed by i."""
    tg = ["gauss2", "bimodal", "expface", "vonmises", "expface_refl", "gauss4"][i % 6]
    return dict(target=tg, N=[32, 48, 64][(i // 6) % 3], n_total=[128, 200][(i // 2) % 2],
                kernel=["tpcn", "rwm"][i % 2], resample=["mult", "syst"][(i // 2) % 2],
                clustering=bool((i // 3) % 2), mode=["vec", "scalar", "blobs"][(i // 4) % 3],
                volume_variation=[None, None, 1.0][(i // 5) % 3], seed=1000 + i)


def build(cfg, like=None):
    from tempest import Sampler
    c = full(cfg)
    t = targets.make(c["target"], **c["tkw"])
    if like is None:
        like = idblob.Likelihood(t, mode=c["mode"], shift=c["shift"], pointwise=c.get("pointwise", False),
                                 shared_counter=idblob.SHARED)
    if c.get("ret_type"):
        like.ret_type = c["ret_type"]
    if c.get("ro_buffer"):
        like.ro_buffer = True        # vectorised likelihood returns a read-only view of a buffer it reuses on the next call
    pt = idblob.Transform(t, dtype=c.get("xdtype"), alias=c.get("xalias", False))
    periodic, reflective = t.periodic, t.reflective
    if c["bc"] != "target":
        periodic, reflective = c["bc"]
    kw = dict(prior_transform=pt, log_likelihood=like, n_dim=t.n_dim, n_particles=c["N"],
              ess_ratio=c["ess_ratio"], volume_variation=c["volume_variation"],
              vectorize=(c["mode"] == "vec"),
              blobs_dtype=("float64" if c["mode"] in ("blobs", "blobs3") else [("id", "f8"), ("half", "f8")] if c["mode"] == "blobs2" else None),
              periodic=periodic, reflective=reflective, pool=c["pool"], clustering=c["clustering"],
              normalize=c["normalize"], cluster_every=c["cluster_every"],
              split_threshold=c["split_threshold"], n_max_clusters=c["n_max_clusters"],
              sample=c["kernel"], n_steps=c["n_steps"], n_max_steps=c["n_max_steps"],
              resample=c["resample"], random_state=c["random_state"])
    for k in ("output_dir", "output_label"):
        if k in c:
            kw[k] = c[k]
    s = Sampler(**kw)
    return s, t, like, pt


def history(s):
    sm = s.state
    n = sm.get_history_length()
    H = {k: [sm.get_history(k, index=i) for i in range(n)] for k in ("u", "x", "logl", "beta", "logz", "ess", "iter", "calls", "steps")}
    try:
        H["blobs"] = [sm.get_history("blobs", index=i) for i in range(len(sm._history["blobs"]))]
    except Exception:
        H["blobs"] = []
    return H


def history_digest(s):
    H = history(s)
    return digest(H)


def run(cfg, budget=400, **runkw):
    """Seed the ambient stream, construct, run to completion.  Returns (sampler, target, like, pt)."""
    c = full(cfg)
    np.random.seed(c["seed"])
    s, t, like, pt = build(c)
    with attach.Hooks() as hk:
        attach.iteration_budget(hk, budget)
        s.run(n_total=c["n_total"], progress=False, **runkw)
    return s, t, like, pt


def estimates(s, t):
    out = {}
    for est, kw in (("untrimmed", dict(trim_importance_weights=False)),
                    ("trimmed", dict()),
                    ("resampled", dict(trim_importance_weights=False, resample=True))):
        x, w, logl = s.posterior(**kw)[:3]
        out[est] = t.estimates(x, w)
    return out


def run_summary(cfg):
    s, t, like, pt = run(cfg)
    H = s.state
    return dict(logz=float(s.evidence()[0]), est=estimates(s, t),
                n_iter=int(H.get_history_length()), calls=int(H.get_current("calls")),
                n_points=int(like.n_points),
                betas=[float(b) for b in H.get_history("beta")])


def run_and_dump_history(cfg):
    s, t, like, pt = run(cfg)
    H = history(s)
    return dict(cfg=cfg, logl=[np.asarray(l) for l in H["logl"]], betas=[float(b) for b in H["beta"]],
                logz=[float(z) for z in H["logz"]])

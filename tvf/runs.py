"""Real Sampler runs from a configuration dictionary (shared by the sampler-level checks)."""
from __future__ import annotations

import numpy as np

from tvf import attach, idblob, targets
from tvf.env import digest, install_fit_marker

install_fit_marker()

DEFAULTS = dict(target="gauss2", tkw={}, N=64, n_total=256, kernel="tpcn", resample="mult",
                clustering=False, mode="vec", ess_ratio=2.0, volume_variation=None,
                cluster_every=1, n_max_clusters=None, normalize=True, split_threshold=1.0,
                n_steps=None, n_max_steps=None, seed=0, shift=0.0, random_state=None, pool=None,
                bc="target")


def prog(c):
    """progress display of run(): as configured, otherwise on for every other seed (the library's default is on)."""
    if c.get("progress") is not None:
        return bool(c["progress"])
    return bool(int(c.get("seed", 0) or 0) % 2)


def full(cfg):
    c = dict(DEFAULTS)
    c.update(cfg)
    return c


def small_cfg(i):
    """A deterministic family of small diverse configurations, indexed by i."""
    tg = ["gauss2", "bimodal", "expface", "vonmises", "expface_refl", "gauss4"][i % 6]
    return dict(target=tg, N=[32, 48, 64][(i // 6) % 3], n_total=[128, 200][(i // 2) % 2],
                kernel=["tpcn", "rwm"][i % 2], resample=["mult", "syst"][(i // 2) % 2],
                clustering=bool((i // 3) % 2), mode=["vec", "scalar", "blobs"][(i // 4) % 3],
                volume_variation=[None, None, 1.0][(i // 5) % 3], seed=1000 + i)


def build(cfg, like=None):
    from tempest import Sampler
    c = full(cfg)
    t = targets.make(c["target"], **c["tkw"])
    if like is None:
        like = idblob.Likelihood(t, mode=c["mode"], shift=c["shift"], pointwise=c.get("pointwise", False),
                                 shared_counter=idblob.SHARED)
    if c.get("ret_type"):
        like.ret_type = c["ret_type"]
    if c.get("ro_buffer"):
        like.ro_buffer = True        # vectorised likelihood returns a read-only view of a buffer it reuses on the next call
    pt = idblob.Transform(t, dtype=c.get("xdtype"), alias=c.get("xalias", False), style=c.get("xstyle"))
    if c.get("pool") == "tpe":
        from tvf.checks.c13 import make_tpe
        c["pool"] = make_tpe(4, int(c.get("seed", 0) or 0) + 3)      # a genuine concurrent.futures.ThreadPoolExecutor, calls finish out of order
    elif c.get("pool") == "threadpool":
        from multiprocessing.pool import ThreadPool
        c["pool"] = ThreadPool(2)
    periodic, reflective = t.periodic, t.reflective
    if c["bc"] != "target":
        periodic, reflective = c["bc"]
    kw = dict(prior_transform=pt, log_likelihood=like, n_dim=t.n_dim, n_particles=c["N"],
              ess_ratio=c["ess_ratio"], volume_variation=c["volume_variation"],
              vectorize=(c["mode"] == "vec"),
              blobs_dtype=("int64" if c["mode"] == "blobsI" else object if c["mode"] == "blobsS" else "float64" if c["mode"] in ("blobs", "blobs3", "blobview") else [("id", "f8"), ("half", "f8")] if c["mode"] == "blobs2" else None),
              periodic=periodic, reflective=reflective, pool=c["pool"], clustering=c["clustering"],
              normalize=c["normalize"], cluster_every=c["cluster_every"],
              split_threshold=c["split_threshold"], n_max_clusters=c["n_max_clusters"],
              sample=c["kernel"], n_steps=c["n_steps"], n_max_steps=c["n_max_steps"],
              resample=c["resample"], random_state=c["random_state"])
    for k in ("output_dir", "output_label"):
        if k in c:
            kw[k] = c[k]
    if c.get("all_defaults"):
        # the shortest documented use: Sampler(prior_transform, log_likelihood, n_dim).run() - every option at its default
        kw = dict(prior_transform=pt, log_likelihood=like, n_dim=t.n_dim)
    if c.get("like_args"):
        # extra positional and keyword arguments handed through the sampler to the likelihood
        kw["log_likelihood_args"] = [np.full(t.n_dim, 0.125), 0.25]
        kw["log_likelihood_kwargs"] = dict(tag=3.0)
    s = Sampler(**kw)
    return s, t, like, pt


def history(s):
    sm = s.state
    n = sm.get_history_length()
    H = {k: [sm.get_history(k, index=i) for i in range(n)] for k in ("u", "x", "logl", "beta", "logz", "ess", "iter", "calls", "steps")}
    try:
        H["blobs"] = [sm.get_history("blobs", index=i) for i in range(len(sm._history["blobs"]))]
    except Exception:
        H["blobs"] = []
    return H


def history_digest(s):
    H = history(s)
    return digest(H)


def execute(c, **runkw):
    """Construct and run (the caller has seeded the stream and installed its hooks).  With c['continue_with'] = N2 the run is
    stopped half-way (mid-run checkpoint) and continued by a NEW sampler with N2 particles: the stored history then holds batches
    of different sizes."""
    if not c.get("continue_with"):
        s, t, like, pt = build(c)
        if c.get("all_defaults"):
            s.run(**runkw)
        else:
            s.run(n_total=c["n_total"], progress=prog(c), **runkw)
        return s, t, like, pt
    import os, shutil, tempfile
    from tvf.env import OUT
    base = OUT / "tmp"
    base.mkdir(parents=True, exist_ok=True)
    tmp = tempfile.mkdtemp(dir=str(base), prefix="cw-")
    try:
        c1 = dict(c, output_dir=tmp, output_label="cw")
        s1, t, like, pt = build(c1)
        s1.run(n_total=c["n_total"], progress=prog(c), save_every=1)
        files = sorted((f for f in os.listdir(tmp) if f.startswith("cw_") and "final" not in f), key=lambda f: int(f.split("_")[1].split(".")[0]))
        pick = os.path.join(tmp, files[len(files) // 2])
        s2, _, _, _ = build(dict(c1, N=int(c["continue_with"])), like=like)
        s2.run(n_total=c["n_total"], progress=prog(c), resume_state_path=pick, **runkw)
        return s2, t, like, pt
    finally:
        shutil.rmtree(tmp, ignore_errors=True)


def run(cfg, budget=400, **runkw):
    """Seed the ambient stream, construct, run to completion.  Returns (sampler, target, like, pt)."""
    c = full(cfg)
    np.random.seed(c["seed"])
    with attach.Hooks() as hk:
        attach.iteration_budget(hk, budget)
        if c.get("pin_limit"):
            # injected decision: one iteration (possibly the last) is decided at a temperature inside (1 - 2e-4, 1)
            attach.pin_limit(hk, c["pin_limit"])
        s, t, like, pt = execute(c, **runkw)
    return s, t, like, pt


def estimates(s, t):
    out = {}
    for est, kw in (("untrimmed", dict(trim_importance_weights=False)),
                    ("trimmed", dict()),
                    ("resampled", dict(trim_importance_weights=False, resample=True))):
        x, w, logl = s.posterior(**kw)[:3]
        out[est] = t.estimates(x, w)
    return out


def run_summary(cfg):
    s, t, like, pt = run(cfg)
    H = s.state
    return dict(logz=float(s.evidence()[0]), est=estimates(s, t),
                n_iter=int(H.get_history_length()), calls=int(H.get_current("calls")),
                n_points=int(like.n_points),
                betas=[float(b) for b in H.get_history("beta")])


def run_and_dump_history(cfg):
    s, t, like, pt = run(cfg)
    H = history(s)
    return dict(cfg=cfg, logl=[np.asarray(l) for l in H["logl"]], betas=[float(b) for b in H["beta"]],
                logz=[float(z) for z in H["logz"]])

"""Reference models, all independent of tempest code."""
from __future__ import annotations

import math
from fractions import Fraction

import numpy as np

LD = np.longdouble


# ----------------------------------------------------------------------------- MIS weights
def lse(a, axis=None):
    a = np.asarray(a, dtype=LD)
    m = np.max(a, axis=axis, keepdims=True)
    m = np.where(np.isfinite(m), m, LD(0))
    s = np.log(np.sum(np.exp(a - m), axis=axis, keepdims=True)) + m
    if axis is None:
        return s.reshape(())[()]
    return np.squeeze(s, axis=axis)


def mis_ref(logl_batches, betas, logzs, beta):
    """Balance-heuristic MIS log-weights in long double.

    returns (logw_unnormalised, logw_normalised, logz, ess)
    """
    ns = np.array([len(b) for b in logl_batches], dtype=LD)
    N = ns.sum()
    logl = np.concatenate([np.asarray(b, dtype=LD) for b in logl_batches])
    betas = np.asarray(betas, dtype=LD)
    logzs = np.asarray(logzs, dtype=LD)
    comp = logl[:, None] * betas[None, :] - logzs[None, :] + (np.log(ns) - np.log(N))[None, :]
    B = lse(comp, axis=1)
    logw = LD(beta) * logl - B
    tot = lse(logw)
    logz = tot - np.log(LD(len(logl)))
    lw_n = logw - tot
    w = np.exp(lw_n)
    ess = 1.0 / np.sum(w * w)
    return logw, lw_n, logz, ess


def ess_ref(w):
    w = np.asarray(w, dtype=LD)
    s = w.sum()
    w = w / s
    return LD(1) / np.sum(w * w)


# ----------------------------------------------------------------------------- exact folds
def fold_periodic_exact(x: float) -> Fraction:
    f = Fraction(x)
    return f - math.floor(f)


def fold_reflect_exact(x: float) -> Fraction:
    f = Fraction(x)
    t = f - 2 * math.floor(f / 2)  # in [0,2)
    return t if t <= 1 else 2 - t


def frac_to_float(fr: Fraction) -> float:
    return fr.numerator / fr.denominator  # correctly rounded true division


# ----------------------------------------------------------------------------- systematic comb
def comb_breakpoints(n, w):
    """u0 values in [0,1) at which the index vector of the ideal comb changes.
    position_i = (u0+i)/n crosses cumulative c_j when u0 = n*c_j - i."""
    w = np.asarray(w, dtype=LD)
    c = np.cumsum(w / w.sum())
    bps = set()
    for cj in c[:-1]:
        v = float(n * cj)
        fr = v - math.floor(v)
        if 0.0 <= fr < 1.0:
            bps.add(fr)
    return sorted(bps)


def comb_ideal(n, w, u0):
    """Index vector of the exact comb with *normalised* cumulative weights."""
    w = np.asarray(w, dtype=LD)
    c = np.cumsum(w / w.sum())
    c[-1] = 1.0
    pos = (LD(u0) + np.arange(n, dtype=LD)) / n
    idx = np.searchsorted(c, pos, side="left")
    return np.minimum(idx, len(w) - 1)


def comb_check(n, w, u0, idx):
    """Validate the index vector returned by the real routine for offset u0.
    Returns list of (clause, detail)."""
    bad = []
    w = np.asarray(w, dtype=float)
    m = len(w)
    idx = np.asarray(idx)
    if idx.shape != (n,):
        bad.append(("length", f"shape {idx.shape} != ({n},)"))
        return bad
    if idx.dtype.kind not in "iu":
        bad.append(("dtype", str(idx.dtype)))
        return bad
    if idx.min() < 0 or idx.max() >= m:
        bad.append(("range", f"min {idx.min()} max {idx.max()} m {m}"))
        return bad
    if np.any(np.diff(idx) < 0):
        bad.append(("monotone", "indices decrease"))
    s = float(np.sum(w.astype(LD)))
    slack = n * (abs(s - 1.0) + 1e-12) + 1e-9
    cnt = np.bincount(idx, minlength=m)
    nw = n * (w.astype(LD) / LD(s))
    lo = np.floor(np.asarray(nw - slack, dtype=float))
    hi = np.ceil(np.asarray(nw + slack, dtype=float))
    viol = np.where((cnt < lo) | (cnt > hi))[0]
    if len(viol):
        i = int(viol[0])
        bad.append(("copies", f"index {i}: copies {int(cnt[i])} but n*w={float(nw[i]):.12g}"))
    z = np.where((w == 0) & (cnt > 0))[0]
    if len(z):
        bad.append(("zero-weight-drawn", f"index {int(z[0])} has weight 0 but {int(cnt[z[0]])} copies"))
    # each tooth must lie in (a slightly widened) interval of its index
    c = np.cumsum(w.astype(LD) / LD(s))
    cprev = np.concatenate([[LD(0)], c[:-1]])
    pos = (LD(u0) + np.arange(n, dtype=LD)) / n
    tol = abs(s - 1.0) + 1e-12
    off = np.where((pos > c[idx] + tol) | (pos < cprev[idx] - tol))[0]
    if len(off):
        # teeth beyond the last positive weight may clamp to the last positive index
        lastpos = int(np.flatnonzero(w > 0)[-1])
        off = [int(i) for i in off if not (idx[i] == lastpos and pos[i] > c[lastpos] - tol)]
        if off:
            i = off[0]
            bad.append(("tooth", f"tooth {i} at {float(pos[i]):.17g} mapped to index {int(idx[i])} "
                                 f"covering ({float(cprev[idx[i]]):.17g},{float(c[idx[i]]):.17g}]"))
    return bad


# ----------------------------------------------------------------------------- t densities
def mvt_logpdf_unnorm(u, mu, Sigma_inv, nu, d):
    diff = np.asarray(u, dtype=LD) - np.asarray(mu, dtype=LD)
    q = diff @ np.asarray(Sigma_inv, dtype=LD) @ diff
    return -0.5 * (LD(nu) + d) * np.log1p(q / LD(nu))


# ----------------------------------------------------------------------------- reference state manager
class RefState:
    """Dict-of-copies model of StateManager semantics (C17)."""

    CUR = ("u", "x", "logl", "assignments", "blobs", "acceptance", "steps", "efficiency",
           "ess", "beta", "logz", "calls", "iter")
    HIST = ("u", "x", "logl", "blobs", "iter", "logz", "calls", "steps", "efficiency", "ess",
            "acceptance", "beta")

    def __init__(self):
        self.cur = {k: None for k in self.CUR}
        self.hist = {k: [] for k in self.HIST}

    @staticmethod
    def cp(v):
        return v.copy() if isinstance(v, np.ndarray) else v

    def set(self, k, v):
        self.cur[k] = self.cp(v)

    def commit(self):
        for k in self.CUR:
            if k in self.hist and self.cur[k] is not None:
                self.hist[k].append(self.cp(self.cur[k]))

    @staticmethod
    def same(a, b):
        if a is None or b is None:
            return a is None and b is None
        if isinstance(a, np.ndarray) or isinstance(b, np.ndarray):
            a = np.asarray(a)
            b = np.asarray(b)
            return a.shape == b.shape and a.dtype == b.dtype and a.tobytes() == b.tobytes()
        return a == b and type(a) is type(b)

"""Entry point: python -m tvf.main <ID> [--tier T] [--replay PATH]"""
import argparse
import importlib
import json
import os
import sys
import warnings


def main(argv=None):
    ap = argparse.ArgumentParser()
    ap.add_argument("pid")
    ap.add_argument("--tier", default=None)
    ap.add_argument("--replay", default=None)
    a = ap.parse_args(argv)
    if a.tier:
        os.environ["VERIF_TIER"] = a.tier
    os.environ.setdefault("VERIF_TIER", "quick")
    pid = a.pid.upper()
    warnings.simplefilter("ignore")
    # the repo under test must be the one on PYTHONPATH
    import tempest
    from tvf import env
    got = os.path.realpath(os.path.dirname(os.path.dirname(tempest.__file__)))
    want = os.path.realpath(str(env.REPO))
    if got != want:
        print(f"INCONCLUSIVE property={pid} reason=tempest imported from {got}, expected {want}")
        return 2
    mod = importlib.import_module(f"tvf.checks.{pid.lower()}")
    if a.replay:
        rec = json.loads(open(a.replay).read())
        if not hasattr(mod, "replay"):
            print("this check has no single-case replay; re-run with the recorded seed:")
            print(f"  VERIF_SEED={rec.get('seed')} ./check {pid} --tier {rec.get('tier')}")
            return 2
        return int(mod.replay(rec) or 0)
    return int(mod.run() or 0)


if __name__ == "__main__":
    sys.exit(main())

"""Record-coherence oracle shared by C07 / C12: every (u, x, logL, blob) row must be one
evaluation of the instrumented likelihood at prior_transform(u)."""
from __future__ import annotations

import numpy as np


def coherent_rows(t, like, u, x, logl, blobs, where, need_u=True, recompute=False):
    """Returns list of (key, what).  u may be None (posterior() does not return u)."""
    bad = []
    x = np.asarray(x)
    logl = np.asarray(logl)
    n = len(logl)
    if x.shape[0] != n or (u is not None and len(u) != n) or (blobs is not None and len(blobs) != n):
        bad.append(("record-length", f"{where}: field lengths differ (x {x.shape}, logl {logl.shape}, u {None if u is None else np.shape(u)}, blobs {None if blobs is None else np.shape(blobs)})"))
        return bad
    if np.any(~np.isfinite(logl)):
        bad.append(("stored-nonfinite-logl", f"{where}: {int(np.sum(~np.isfinite(logl)))} rows with non-finite logL"))
    if u is not None:
        u = np.asarray(u)
        if np.any(u < 0) or np.any(u > 1) or np.any(~np.isfinite(u)):
            j = int(np.where((u < 0) | (u > 1) | ~np.isfinite(u))[0][0])
            bad.append(("u-outside-cube", f"{where}: row {j} has u={u[j]} outside [0,1]^d"))
        xt = np.array([t.prior_transform(ui) for ui in u])
        if xt.tobytes() != np.ascontiguousarray(x, dtype=xt.dtype).tobytes():
            j = int(np.where(np.any(xt != x, axis=1))[0][0])
            bad.append(("x-not-transform-of-u", f"{where}: row {j}: x={x[j]} but prior_transform(u)={xt[j]}"))
    miss = 0
    wrong = None
    for j in range(n):
        k = np.ascontiguousarray(x[j]).tobytes()
        ll = like.by_x.get(k)
        if ll is None and recompute:
            # evaluations that happened in worker processes are not in this process's log: the likelihood is a pure
            # function, so the value it returns at that x is recomputed
            ll = float(like._ll(np.asarray(x[j], dtype=float)))
        if ll is None:
            miss += 1
            continue
        if ll != float(logl[j]) and wrong is None:
            wrong = (j, ll, float(logl[j]))
    if miss:
        bad.append(("x-never-evaluated", f"{where}: {miss} rows whose x was never passed to the likelihood"))
    if wrong:
        bad.append(("logl-not-of-x", f"{where}: row {wrong[0]}: stored logL {wrong[2]!r} but the likelihood returned {wrong[1]!r} at that x"))
    if blobs is not None and like.mode == "blobview":
        # the likelihood returns its argument as the blob: every stored blob is the stored x of the same row
        B = np.asarray(blobs)
        if B.shape != x.shape or B.tobytes() != np.ascontiguousarray(x, dtype=B.dtype).tobytes():
            j = int(np.where(np.any(B.reshape(n, -1) != x.reshape(n, -1), axis=1))[0][0]) if B.shape == x.shape else 0
            bad.append(("blob-of-other-record", f"{where}: row {j}: the likelihood returns its argument as the blob, stored blob {B[j] if B.shape == x.shape else B.shape} "
                        f"but stored x {x[j]}"))
    if blobs is not None and like.mode in ("blobsI", "blobsS"):
        B = np.asarray(blobs)
        want = np.dtype("int64") if like.mode == "blobsI" else np.dtype("object")
        if B.dtype != want:
            bad.append(("blob-type", f"{where}: blobs configured as {want} are stored as {B.dtype}"))
        for j in range(n):
            try:
                v = np.ravel(B[j])[0]
                bid = int(v) - 2 ** 53 if like.mode == "blobsI" else int(str(v).split("-")[1])
            except Exception:
                bad.append(("blob-type", f"{where}: blob row {j} = {blobs[j]!r}"))
                break
            rec = like.by_id.get(bid)
            if rec is None:
                bad.append(("blob-unknown", f"{where}: row {j}: blob {v!r} was never issued"))
                break
            if rec[0] != np.ascontiguousarray(x[j]).tobytes() or rec[1] != float(logl[j]):
                bad.append(("blob-of-other-record", f"{where}: row {j}: blob {v!r} belongs to the evaluation at another point (logL {rec[1]!r} vs stored {float(logl[j])!r})"))
                break
    if blobs is not None and like.mode in ("blobs", "blobs2", "blobs3"):
        for j in range(n):
            try:
                if like.mode == "blobs2":
                    bid = int(blobs[j]["id"])
                    if float(blobs[j]["half"]) != 0.5 * bid:
                        bad.append(("blob-fields-split", f"{where}: row {j}: fields of one blob do not belong together ({blobs[j]!r})"))
                        break
                elif like.mode == "blobs3":
                    row = np.asarray(blobs[j], float)
                    if row.shape != (3,):
                        bad.append(("blob-fields-split", f"{where}: row {j}: a three-column blob came back with shape {row.shape}"))
                        break
                    bid = int(row[0])
                    if row[1] != 0.5 * bid or row[2] != bid + 0.25:
                        bad.append(("blob-fields-split", f"{where}: row {j}: columns of one blob do not belong together ({row})"))
                        break
                else:
                    bid = int(np.ravel(blobs[j])[0])
            except Exception:
                bad.append(("blob-type", f"{where}: blob row {j} = {blobs[j]!r}"))
                break
            rec = like.by_id.get(bid)
            if rec is None:
                bad.append(("blob-unknown", f"{where}: row {j}: blob id {bid} was never issued"))
                break
            if rec[0] != np.ascontiguousarray(x[j]).tobytes() or rec[1] != float(logl[j]):
                bad.append(("blob-of-other-record", f"{where}: row {j}: blob id {bid} belongs to the evaluation at another point (logL {rec[1]!r} vs stored {float(logl[j])!r})"))
                break
    return bad

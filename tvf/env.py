"""Run context: seeds, tier, verdict discipline, known findings, evidence writer."""
from __future__ import annotations

import hashlib
import json
import os
import re
import sys
import time
import traceback
from collections import Counter
from pathlib import Path

import numpy as np

ROOT = Path(os.environ.get("TVF_ROOT", Path(__file__).resolve().parent.parent))
REPO = Path(os.environ.get("TEMPEST_REPO", "/repo"))
OUT = ROOT / "out"
EVID = (ROOT / "evidence") if str(REPO) == "/repo" else (OUT / "evidence-other-tree")
KF_FILE = ROOT / "KNOWN_FINDINGS.txt"


def jsonable(o, depth=0):
    """Best-effort conversion of witnesses (arrays, numpy scalars...) to JSON."""
    if depth > 8:
        return repr(o)[:200]
    if o is None or isinstance(o, (bool, int, str)):
        return o
    if isinstance(o, float):
        if o != o or o in (float("inf"), float("-inf")):
            return repr(o)
        return o
    if isinstance(o, (np.bool_,)):
        return bool(o)
    if isinstance(o, np.integer):
        return int(o)
    if isinstance(o, np.floating):
        return jsonable(float(o))
    if isinstance(o, np.ndarray):
        if o.size > 400:
            return {"__array__": list(o.shape), "dtype": str(o.dtype),
                    "head": jsonable(o.ravel()[:40].tolist(), depth + 1),
                    "sha": hashlib.sha1(np.ascontiguousarray(o).tobytes()).hexdigest()[:16]}
        return jsonable(o.tolist(), depth + 1)
    if isinstance(o, dict):
        return {str(k): jsonable(v, depth + 1) for k, v in o.items()}
    if isinstance(o, (list, tuple, set, frozenset)):
        return [jsonable(v, depth + 1) for v in o]
    if isinstance(o, (Path,)):
        return str(o)
    if isinstance(o, bytes):
        return o.hex()[:200]
    return repr(o)[:300]


def stable_hash(o) -> str:
    return hashlib.sha1(json.dumps(jsonable(o), sort_keys=True).encode()).hexdigest()[:16]


class KnownFindings:
    """Parser for KNOWN_FINDINGS.txt.  Never written at run time."""

    LINE = re.compile(r"^(open|fixed):\s+property=(C\d+)\s+(.*)$")

    def __init__(self, path=KF_FILE):
        self.open = {}  # (pid, key) -> text
        self.fixed = []
        if path.exists():
            for ln in path.read_text().splitlines():
                ln = ln.strip()
                if not ln or ln.startswith("#"):
                    continue
                m = self.LINE.match(ln)
                if not m:
                    continue
                kind, pid, rest = m.groups()
                if kind == "open":
                    mk = re.match(r"key=(\S+)\s*(.*)$", rest)
                    if mk:
                        self.open[(pid, mk.group(1))] = mk.group(2)
                else:
                    self.fixed.append((pid, rest))

    def match(self, pid, key):
        return self.open.get((pid, key))


DEGENERATE_MARK = "[tvf: mode fit on a degenerate pool"


def install_fit_marker():
    """Wrap tempest's fit_mvstud (idempotent): when it raises LinAlgError on an input with <= d distinct rows, re-raise a LinAlgError
    subclass whose message says so.  The library's behaviour is unchanged (same exception type hierarchy, raised at the same point);
    the harness can tell a degenerate-pool crash from any other failure."""
    try:
        import numpy as np
        import tempest.modes as tm
        import tempest.student as tst
    except Exception:
        return
    if getattr(tst.fit_mvstud, "_tvf_marked", False):
        return
    orig = tst.fit_mvstud

    class DegeneratePoolError(np.linalg.LinAlgError):
        pass

    def fit_mvstud(data, *a, **k):
        try:
            return orig(data, *a, **k)
        except np.linalg.LinAlgError as e:
            arr = np.asarray(data)
            if arr.ndim == 2 and len(np.unique(arr, axis=0)) <= arr.shape[1]:
                raise DegeneratePoolError(f"{e} {DEGENERATE_MARK}: {len(np.unique(arr, axis=0))} distinct points among {arr.shape[0]} rows in "
                                          f"{arr.shape[1]} dimensions]") from e
            raise
    fit_mvstud._tvf_marked = True
    fit_mvstud.__wrapped__ = orig
    tst.fit_mvstud = fit_mvstud
    if getattr(tm, "fit_mvstud", None) is orig:
        tm.fit_mvstud = fit_mvstud


class Check:
    """One run of one property's check.  Three-valued verdict."""

    def __init__(self, pid: str, level: str = "exploration"):
        install_fit_marker()
        self.pid = pid
        self.level = level
        self.tier = os.environ.get("VERIF_TIER", "quick")
        if self.tier not in ("quick", "thorough"):
            self.tier = "quick"
        self.seed = int(os.environ.get("VERIF_SEED", "0") or 0)
        self.t0 = time.time()
        self.kf = KnownFindings()
        self.evaluations = 0
        self.nontrivial = set()
        self.samples = []
        self.events = Counter()
        self.violations = []
        self.known_seen = {}
        self.inconclusive = []
        self.tables = {}
        self.notes = []
        self.exhaustive = False
        self._printed_kf = set()
        try:
            for f in (OUT / "replay").glob(f"{pid}-{self.tier}-{self.seed}-*.json"):
                f.unlink()
        except OSError:
            pass

    # ------------------------------------------------------------------ seeds
    def rng(self, *stream) -> np.random.Generator:
        """Private generator for the *harness* (never the global legacy stream)."""
        h = hashlib.sha256(repr((self.pid, self.seed) + tuple(stream)).encode()).digest()
        return np.random.default_rng(int.from_bytes(h[:8], "little"))

    def subseed(self, *stream) -> int:
        h = hashlib.sha256(repr((self.pid, self.seed) + tuple(stream)).encode()).digest()
        return int.from_bytes(h[:4], "little")

    @property
    def quick(self):
        return self.tier == "quick"

    def pick(self, quick, thorough):
        return quick if self.tier == "quick" else thorough

    # ------------------------------------------------------------------ cases
    def case(self, desc=None, nontrivial=True, sample=False, n=1):
        self.evaluations += n
        if nontrivial and desc is not None:
            self.nontrivial.add(stable_hash(desc))
        if desc is not None and (sample or len(self.samples) < 3):
            if len(self.samples) < 8:
                self.samples.append(jsonable(desc))

    def event(self, name, n=1):
        self.events[name] += n

    def note(self, s):
        self.notes.append(s)

    # ------------------------------------------------------------------ verdicts
    def violation(self, key: str, what: str, witness=None):
        """Record a refuting observation.  `key` names the *mechanism*."""
        if DEGENERATE_MARK in str(what):
            # the run died inside the mode fit because the whole weighted pool had collapsed onto <= d distinct points (see
            # install_fit_marker): a crash of a valid configuration is C18's subject (recorded there as a known finding); the
            # other properties say nothing about a run that does not reach the states they constrain
            if self.pid == "C18":
                key = "mode-fit-singular-degenerate-pool"
            else:
                self.event("runs that died in the mode fit on a degenerate pool (C18 known finding; not judged by this property)")
                return False
        known = self.kf.match(self.pid, key)
        if known is not None:
            self.known_seen.setdefault(key, {"text": known, "count": 0, "first": jsonable(what)})
            self.known_seen[key]["count"] += 1
            if key not in self._printed_kf:
                self._printed_kf.add(key)
                print(f"KNOWN-FINDING: property={self.pid} key={key} {known}", flush=True)
            return False
        if len(self.violations) < 50:
            self.violations.append({"key": key, "what": what, "witness": jsonable(witness)})
        else:
            self.violations.append({"key": key, "what": what})
        return True

    def inconc(self, reason: str):
        self.inconclusive.append(reason)

    def require_events(self, *names, minimum=1):
        for n in names:
            if self.events.get(n, 0) < minimum:
                self.inconc(f"monitor '{n}' observed {self.events.get(n, 0)} events (< {minimum})")

    # ------------------------------------------------------------------ finish
    def finish(self, rule: str, assumptions=None, extra=None) -> int:
        wall = time.time() - self.t0
        OUT.mkdir(exist_ok=True)
        EVID.mkdir(parents=True, exist_ok=True)
        replay_paths = []
        for i, v in enumerate(self.violations[:20]):
            p = OUT / "replay" / f"{self.pid}-{self.tier}-{self.seed}-{i}.json"
            p.parent.mkdir(parents=True, exist_ok=True)
            rec = {
                "property": self.pid, "tier": self.tier, "seed": self.seed,
                "repo": str(REPO), "key": v["key"], "what": v["what"],
                "witness": v.get("witness"),
                "replay_cmd": f"./check {self.pid} --replay {p}",
            }
            p.write_text(json.dumps(rec, indent=1))
            replay_paths.append(p)
        cov = {
            "evaluations": int(self.evaluations),
            "distinct_nontrivial": int(len(self.nontrivial)),
            "rule": rule,
            "samples": self.samples if self.samples else ["<no case recorded>"],
            "events_observed": dict(self.events),
            "known_findings_seen": self.known_seen,
            "inconclusive": self.inconclusive[:20],
            "violation_keys": dict(Counter(v["key"] for v in self.violations)),
        }
        if self.exhaustive:
            cov["exhaustive"] = True
        if self.tables:
            cov["tables"] = jsonable(self.tables)
        if self.notes:
            cov["notes"] = self.notes[:40]
        if extra:
            cov.update(jsonable(extra))
        ev = {
            "property_id": self.pid,
            "tier": self.tier,
            "seed": self.seed,
            "level": self.level,
            "coverage": cov,
            "assumptions": list(assumptions or []),
            "wall_s": round(wall, 2),
            "violations": len(self.violations),
            "verdict": ("violated" if self.violations else
                        "inconclusive" if self.inconclusive else "held"),
            "repo": str(REPO),
        }
        (EVID / f"{self.pid}.json").write_text(json.dumps(ev, indent=1))
        for k, v in sorted(self.events.items()):
            print(f"  observed {k}: {v}")
        print(f"{self.pid} tier={self.tier} seed={self.seed} evaluations={self.evaluations} "
              f"distinct_nontrivial={len(self.nontrivial)} wall={wall:.1f}s", flush=True)
        if self.violations:
            keys = Counter(v["key"] for v in self.violations)
            for k, c in keys.items():
                first = next(v for v in self.violations if v["key"] == k)
                print(f"  violated[{k}] x{c}: {str(first['what'])[:300]}")
            for p in replay_paths[:5]:
                print(f"VIOLATION property={self.pid} replay={p}", flush=True)
            return 1
        if self.inconclusive:
            for r in self.inconclusive[:5]:
                print(f"INCONCLUSIVE property={self.pid} reason={r}", flush=True)
            return 2
        print(f"HELD property={self.pid} on everything explored", flush=True)
        return 0


def fmt_exc():
    return traceback.format_exc(limit=12)


def digest(*arrays) -> str:
    h = hashlib.sha256()
    for a in arrays:
        if a is None:
            h.update(b"<None>")
        elif isinstance(a, np.ndarray):
            h.update(str(a.dtype).encode() + str(a.shape).encode())
            if a.dtype == object:
                h.update(repr(a.tolist()).encode())
            elif a.dtype == np.longdouble and np.dtype(np.longdouble).itemsize > 8:
                # the in-memory form of an extended-precision number has padding bytes with arbitrary content: hash the value
                hi = a.astype(np.float64)
                lo = (a - hi.astype(np.longdouble)).astype(np.float64)
                h.update(np.ascontiguousarray(hi).tobytes() + np.ascontiguousarray(lo).tobytes())
            else:
                h.update(np.ascontiguousarray(a).tobytes())
        elif isinstance(a, (list, tuple)):
            h.update(digest(*a).encode())
        elif isinstance(a, dict):
            for k in sorted(a):
                h.update(str(k).encode())
                h.update(digest(a[k]).encode())
        else:
            h.update(repr(a).encode())
    return h.hexdigest()[:24]

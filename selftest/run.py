#!/usr/bin/env python3
"""Mutation self-test driver.

For each mutant of selftest/mutants.py: copy /repo's working tree to a scratch directory
outside /repo and /verif, apply the replacement, (optionally) run the repository's own
test suite on the mutant, run the quick checks expected to catch it with
TEMPEST_REPO=<scratch>, record whether a VIOLATION line was printed, remove the scratch.

usage: selftest/run.py [--only NAME,...] [--props C03,...] [--no-suite] [--jobs N] [--patch-dir DIR]
Writes selftest/RESULTS.md and selftest/results.json.
"""
import argparse
import concurrent.futures as cf
import json
import os
import shutil
import subprocess
import sys
import tempfile
import time

HERE = os.path.dirname(os.path.abspath(__file__))
ROOT = os.path.dirname(HERE)
sys.path.insert(0, HERE)
REPO = "/repo"
SCRATCH_BASE = "/var/tmp"


def make_scratch():
    d = tempfile.mkdtemp(prefix="tvf-mut-", dir=SCRATCH_BASE)
    subprocess.run(["rsync", "-a", "--exclude", ".git", "--exclude", "__pycache__", "--exclude", "docs", "--exclude", "states",
                    "--exclude", "test_output_states", REPO + "/", d + "/"], check=True)
    return d


def run_suite(d):
    env = dict(os.environ, PYTHONDONTWRITEBYTECODE="1", OMP_NUM_THREADS="1")
    env.pop("TEMPEST_VERIF", None)
    r = subprocess.run(["/venv/bin/python", "-m", "pytest", "-q", "-x", "-p", "no:cacheprovider", "--timeout=600",
                        "--deselect", "tests/test_sample_method.py::SampleMethodTestCase::test_sample_with_save_every",
                        "--deselect", "tests/test_sampler_features.py::SamplerFeaturesTestCase::test_custom_output_dir",
                        "--deselect", "tests/test_state.py::SamplerStateTestCase::test_resume"],
                       cwd=d, env=env, capture_output=True, text=True, timeout=1800)
    tail = [l for l in r.stdout.splitlines() if " passed" in l or " failed" in l]
    return r.returncode == 0, (tail[-1] if tail else r.stdout[-200:])


def run_check(d, pid, jobs):
    env = dict(os.environ, TEMPEST_REPO=d, TVF_JOBS=str(jobs), VERIF_TIER="quick")
    t0 = time.time()
    try:
        r = subprocess.run([os.path.join(ROOT, "check"), pid, "--tier", "quick"], cwd=ROOT, env=env, capture_output=True, text=True, timeout=1500)
    except subprocess.TimeoutExpired:
        return dict(pid=pid, caught=False, exit="timeout", keys=[], wall=time.time() - t0)
    keys = [l.strip()[:220] for l in r.stdout.splitlines() if l.strip().startswith("violated[")]
    viol = any(l.startswith("VIOLATION property=") for l in r.stdout.splitlines())
    return dict(pid=pid, caught=bool(viol and r.returncode == 1), exit=r.returncode, keys=keys[:4], wall=round(time.time() - t0, 1),
                inconclusive=[l[:200] for l in r.stdout.splitlines() if l.startswith("INCONCLUSIVE")][:2])


def one(mut, suite, jobs, props_filter):
    d = make_scratch()
    try:
        p = os.path.join(d, mut["file"])
        s = open(p).read()
        if s.count(mut["old"]) != mut.get("count", 1):
            return dict(name=mut["name"], error=f"pattern occurs {s.count(mut['old'])} times in {mut['file']}")
        open(p, "w").write(s.replace(mut["old"], mut["new"]))
        res = dict(name=mut["name"], file=mut["file"], expected=mut["props"])
        if suite:
            ok, tail = run_suite(d)
            res["suite_passes"] = ok
            res["suite"] = tail
        checks = [c for c in mut["props"] if not props_filter or c in props_filter]
        res["checks"] = [run_check(d, c, jobs) for c in checks]
        res["caught_by"] = [c["pid"] for c in res["checks"] if c["caught"]]
        return res
    finally:
        shutil.rmtree(d, ignore_errors=True)


def main():
    ap = argparse.ArgumentParser()
    ap.add_argument("--only", default="")
    ap.add_argument("--props", default="")
    ap.add_argument("--no-suite", action="store_true")
    ap.add_argument("--jobs", type=int, default=4)
    ap.add_argument("--par", type=int, default=4)
    a = ap.parse_args()
    import mutants
    ms = mutants.M
    if a.only:
        names = set(a.only.split(","))
        ms = [m for m in ms if m["name"] in names]
    pf = set(a.props.split(",")) if a.props else None
    if pf:
        ms = [m for m in ms if set(m["props"]) & pf]
    out = []
    with cf.ThreadPoolExecutor(a.par) as ex:
        futs = {ex.submit(one, m, not a.no_suite, a.jobs, pf): m for m in ms}
        for f in cf.as_completed(futs):
            r = f.result()
            out.append(r)
            if "error" in r:
                print(f"!! {r['name']}: {r['error']}", flush=True)
            else:
                print(f"{'CAUGHT' if r['caught_by'] else 'MISSED'} {r['name']:40s} by {r['caught_by']} (expected {r['expected']}) "
                      f"suite={'pass' if r.get('suite_passes') else r.get('suite', 'n/a')}", flush=True)
    out.sort(key=lambda r: r["name"])
    prev = {}
    pj = os.path.join(HERE, "results.json")
    if os.path.exists(pj):
        prev = {r["name"]: r for r in json.load(open(pj))}
    for r in out:
        old = prev.get(r["name"])
        if old and "suite_passes" in old and "suite_passes" not in r:
            r["suite_passes"], r["suite"] = old["suite_passes"], old.get("suite")      # keep the suite verdict of the last full run
        prev[r["name"]] = r
    allr = sorted(prev.values(), key=lambda r: r["name"]) if prev else out
    json.dump(allr, open(pj, "w"), indent=1)
    with open(os.path.join(HERE, "RESULTS.md"), "w") as f:
        f.write("# Mutation self-test results (quick tier)\n\n| mutant | file | suite still passes | expected | caught by | witness keys |\n|---|---|---|---|---|---|\n")
        for r in allr:
            if r["name"] in mutants.EQUIVALENT:
                continue
            if "error" in r:
                f.write(f"| {r['name']} | - | - | - | ERROR {r['error']} | |\n")
                continue
            keys = "; ".join(k.split(":")[0] for c in r["checks"] for k in c["keys"][:2])
            f.write(f"| {r['name']} | {r['file']} | {r.get('suite_passes', 'n/a')} | {','.join(r['expected'])} | {','.join(r['caught_by']) or '**MISSED**'} | {keys[:160]} |\n")
        f.write("\n## Mutants classified as equivalent with respect to the properties (not run)\n\n")
        for k, why in mutants.EQUIVALENT.items():
            f.write(f"* `{k}` - {why}\n")
    missed = [r["name"] for r in allr if "error" not in r and not r["caught_by"] and r["name"] not in mutants.EQUIVALENT]
    print(f"{len(allr)} mutants, {len(missed)} missed: {missed}")


if __name__ == "__main__":
    main()

"""Mutation self-test catalogue: (name, file, old, new, [properties expected to catch]).

Each mutant is a realistic small change to minaskar/tempest that breaks a property.
`old` must occur exactly once in the file of the *current* /repo tree.
"""

M = []
EQUIVALENT = {
    "accept-outside-not-rejected": "out-of-cube proposals are replaced by the current point first, so accepting them is a no-op (only the adaptation statistic changes)",
    "commit-no-copy": "set_current always replaces the array object, nothing mutates _current in place: the alias is unobservable through the public API",
    "student-absolute-regularisation": "unreachable while the known finding C19 nu-estimate-infinite stands (fit_mvstud returns before the first Sigma update)",
    "syst-always-renormalise-off": "only changes behaviour for weight sums outside the property's domain (|sum-1| > sqrt(eps))",
    "train-labels-from-fit": "labels_ and predict() name the same clusters; membership differences do not contradict the property",
    "resume-skips-random-state": "the constructor already seeds with random_state and nothing draws before the checkpoint is loaded, so the re-seed on load is redundant for construct+resume",
    "save-every-off-by-one-iter": "the property constrains what a written checkpoint contains, not which iterations get one",
    "volume-unweighted-mean": "the unweighted mean is affine-equivariant too: value changes, the stated invariances do not",
}


def m(name, file, old, new, props, count=1):
    M.append(dict(name=name, file=file, old=old, new=new, props=props, count=count))


def eq(*a, **k):
    """equivalent mutant (documented in EQUIVALENT): not run"""


# ---------------------------------------------------------------- state_manager.py (C04, C17)
m("mis-drop-logz-iter", "tempest/state_manager.py",
  "b = logl_all[:, None] * beta[None, :] - logz_iter[None, :]", "b = logl_all[:, None] * beta[None, :]", ["C04", "C02", "C05"])
m("mis-drop-mixture-weights", "tempest/state_manager.py",
  "b_weighted = b + log_mixture_weights[None, :]", "b_weighted = b", ["C04"])
m("mis-logN-total", "tempest/state_manager.py",
  "logz_new = np.logaddexp.reduce(logw) - np.log(logw.size)", "logz_new = np.logaddexp.reduce(logw) - np.log(len(beta))", ["C04", "C02"])
m("mis-naive-logsumexp", "tempest/state_manager.py",
  "B = np.logaddexp.reduce(b_weighted, axis=1)", "B = np.log(np.sum(np.exp(b_weighted), axis=1))", ["C04"])
m("get-current-no-copy", "tempest/state_manager.py",
  "            value = self._current[key]\n            return self._ensure_copy(value)", "            value = self._current[key]\n            return value", ["C17"])
eq("commit-no-copy", "tempest/state_manager.py",
  "self._history[current_key].append(self._ensure_copy(value))", "self._history[current_key].append(value)", ["C17"])
m("results-cache-by-reference", "tempest/state_manager.py",
  "        return {k: self._ensure_copy(v) for k, v in self._results_dict.items()}", "        return self._results_dict", ["C17"])
m("get-history-index-no-copy", "tempest/state_manager.py",
  "            return self._ensure_copy(self._history[key][index])", "            return self._history[key][index]", ["C17"])

# ---------------------------------------------------------------- tools.py (C06, C20)
m("syst-positions-no-size", "tempest/tools.py",
  "positions = (np.random.random() + np.arange(size)) / size", "positions = (np.random.random() + np.arange(size)) / len(weights)", ["C06"])
m("syst-offbyone-index", "tempest/tools.py",
  "        indeces[i] = j\n", "        indeces[i] = min(j + 1, len(weights) - 1)\n", ["C06"])
m("syst-no-clamp", "tempest/tools.py",
  "while positions[i] > cumulative_sum and j < j_max:", "while positions[i] > cumulative_sum:", ["C06"])
eq("syst-always-renormalise-off", "tempest/tools.py",
  "    if abs(np.sum(weights) - 1.0) > SQRTEPS:\n        weights = np.array(weights) / np.sum(weights)", "    if False:\n        weights = np.array(weights) / np.sum(weights)", ["C06"])
m("trim-threshold-strict", "tempest/tools.py",
  "        mask = weights >= threshold", "        mask = weights > threshold", ["C20"])
m("trim-no-renormalise", "tempest/tools.py",
  "        weights_trimmed /= np.sum(weights_trimmed)\n", "        weights_trimmed = weights_trimmed * 1.0\n", ["C20", "C12"])
m("ess-no-normalise", "tempest/tools.py",
  "    weights = weights / np.sum(weights)\n    return 1.0 / np.sum(weights**2.0)", "    return 1.0 / np.sum(weights**2.0)", ["C20", "C05"])
eq("volume-unweighted-mean", "tempest/tools.py",
  "    weighted_mean = np.sum(x * w[:, np.newaxis], axis=0)", "    weighted_mean = np.mean(x, axis=0)", ["C20"])

# ---------------------------------------------------------------- mcmc.py (C03, C07, C16, C13)
m("tpcn-factor-sign", "tempest/mcmc.py", "        return -A + B", "        return A - B", ["C03"])
m("tpcn-exponent-minus-nu", "tempest/mcmc.py",
  "            -0.5\n            * (self.n_dim + self.degrees_of_freedom[self.assignments])\n            * np.log(1 + dot_prime / self.degrees_of_freedom[self.assignments])",
  "            -0.5\n            * (self.n_dim - self.degrees_of_freedom[self.assignments])\n            * np.log(1 + dot_prime / self.degrees_of_freedom[self.assignments])", ["C03"])
m("tpcn-gamma-shape", "tempest/mcmc.py",
  "gamma_shape = (self.n_dim + self.degrees_of_freedom[self.assignments[k]]) / 2", "gamma_shape = self.degrees_of_freedom[self.assignments[k]] / 2", ["C03"])
m("tpcn-missing-sqrt-contraction", "tempest/mcmc.py",
  "            + np.sqrt(1.0 - sigma**2.0) * diff", "            + (1.0 - sigma**2.0) * diff", ["C03"])
m("tpcn-s-not-sqrt", "tempest/mcmc.py",
  "            + sigma * np.sqrt(s) * chol_cov @ np.random.randn(self.n_dim)", "            + sigma * s * chol_cov @ np.random.randn(self.n_dim)", ["C03"])
m("accept-without-beta", "tempest/mcmc.py",
  "            alpha = np.exp(self.beta * (logl_prime - self.logl) + alpha)", "            alpha = np.exp((logl_prime - self.logl) + alpha)", ["C03", "C01"])
eq("accept-outside-not-rejected", "tempest/mcmc.py",
  "            alpha[~inside] = 0.0\n", "", ["C03"])
m("accept-mask-not-on-logl", "tempest/mcmc.py",
  "            self.logl[mask_accept] = logl_prime[mask_accept]\n", "", ["C07", "C03"])
m("blobs-not-updated", "tempest/mcmc.py",
  "                self.blobs[mask_accept] = blobs_prime[mask_accept]", "                pass", ["C07"])
m("calls-plus-one", "tempest/mcmc.py",
  "        self.n_calls += self.n_walkers", "        self.n_calls += 1", ["C13", "C18"])
m("reflect-parity-swapped", "tempest/mcmc.py",
  "u[..., idx] = np.where(remainder <= 1.0, remainder, 2.0 - remainder)", "u[..., idx] = np.where(remainder <= 1.0, 1.0 - remainder, remainder - 1.0)", ["C16"])
m("reflect-as-periodic", "tempest/mcmc.py",
  "            remainder = val % 2.0\n", "            remainder = val % 1.0\n", ["C16"])
m("check-bounds-strict", "tempest/mcmc.py",
  "    return np.all(u_strict >= 0, axis=-1) & np.all(u_strict <= 1, axis=-1)", "    return np.all(u_strict > 0, axis=-1) & np.all(u_strict <= 1, axis=-1)", ["C16"])
m("boundary-inplace", "tempest/mcmc.py",
  "    u = u.copy()\n\n    # Apply periodic", "    u = u\n\n    # Apply periodic", ["C16"])

# ---------------------------------------------------------------- steps (C05, C07, C11, C14, C02)
m("reweight-finalise-beta-prev", "tempest/steps/reweight.py",
  "                beta = beta_upper\n                weights = weights_upper\n                ess_est = ess_upper",
  "                beta = beta_upper\n                weights = weights_prev\n                ess_est = ess_upper", ["C05"])
m("reweight-bisection-swapped", "tempest/steps/reweight.py",
  "            if ess_mid >= ess_ratio:\n                # ESS still sufficient, can try higher beta\n                beta_low = beta_mid\n            else:\n                # ESS too low, need lower beta\n                beta_high = beta_mid",
  "            if ess_mid < ess_ratio:\n                beta_low = beta_mid\n            else:\n                beta_high = beta_mid", ["C05"])
m("reweight-logz-at-prev", "tempest/steps/reweight.py",
  "            _, logz = self.state.compute_logw_and_logz(beta)\n            if self.pbar is not None:\n                self.pbar.update_stats(dict(beta=beta, ESS=int(ess_est), logZ=logz))\n            return self._finalize_iteration(beta, weights, ess_est, logz)\n        else:",
  "            _, logz = self.state.compute_logw_and_logz(beta_prev)\n            if self.pbar is not None:\n                self.pbar.update_stats(dict(beta=beta, ESS=int(ess_est), logZ=logz))\n            return self._finalize_iteration(beta, weights, ess_est, logz)\n        else:", ["C05", "C02", "C10"])
m("resample-blobs-second-index", "tempest/steps/resample.py",
  "            self.state.set_current(\"blobs\", blobs[idx_resampled])", "            self.state.set_current(\"blobs\", blobs[np.sort(idx_resampled)])", ["C07", "C06"])
m("resample-drop-weights", "tempest/steps/resample.py",
  "np.arange(len(weights)), size=self.n_particles, replace=True, p=weights", "np.arange(len(weights)), size=self.n_particles, replace=True", ["C06", "C01"])
m("warmup-x-not-replaced", "tempest/steps/mutate.py",
  "                    x[infinite_idx] = x[idx]\n", "", ["C07", "C11"])
m("warmup-logl-not-replaced", "tempest/steps/mutate.py",
  "                    logl[infinite_idx] = logl[idx]\n", "", ["C11", "C07"])
m("warmup-compounding", "tempest/steps/mutate.py",
  "                logz = np.log(n_finite / n_total)", "                logz = self.state.get_current(\"logz\") + np.log(n_finite / n_total)", ["C11"])
m("warmup-correction-dropped", "tempest/steps/mutate.py",
  "                logz = np.log(n_finite / n_total)\n                self.state.set_current(\"logz\", logz)", "                pass", ["C11"])
m("warmup-calls-not-counted", "tempest/steps/mutate.py",
  "            calls = self.state.get_current(\"calls\") + self.n_particles", "            calls = self.state.get_current(\"calls\")", ["C13"])
eq("train-labels-from-fit", "tempest/steps/train.py",
  "            self.clusterer.fit(u, weights_trimmed)\n            labels = self.clusterer.predict(u)", "            self.clusterer.fit(u, weights_trimmed)\n            labels = self.clusterer.labels_", ["C14"])
m("train-modes-by-rank", "tempest/steps/train.py",
  "                n_modes=self.clusterer.n_clusters_,\n            )\n        elif", "                n_modes=None,\n            )\n        elif", ["C14"])
m("train-no-first-fit", "tempest/steps/train.py",
  "            or self.clusterer.n_clusters_ == 0\n", "", ["C14", "C18"])

# ---------------------------------------------------------------- core.py (C08, C12, C09, C13)
m("terminate-and", "tempest/core.py",
  "        return 1.0 - beta >= 1e-4 or ess < getattr(self, \"n_total\", 0)", "        return 1.0 - beta >= 1e-4 and ess < getattr(self, \"n_total\", 0)", ["C12", "C18"])
m("final-evidence-not-recomputed", "tempest/core.py",
  "        _, logz = self.state.compute_logw_and_logz(1.0)\n        self.state.set_current(\"logz\", logz)\n        self.logz_err = None", "        self.logz_err = None", ["C12", "C08"])
m("posterior-weights-untrimmed-x", "tempest/core.py",
  "            u = u[idx]\n            x = x[idx]\n            logl = logl[idx]\n            logw = logw[idx]\n            if blobs is not None:\n                blobs = blobs[idx]\n\n        if resample:",
  "            u = u[idx]\n            x = x[idx]\n            logw = logw[idx]\n            if blobs is not None:\n                blobs = blobs[idx]\n\n        if resample:", ["C12", "C07"])
m("posterior-blobs-stale-idx", "tempest/core.py",
  "            idx = systematic_resample(len(weights), weights)\n            u = u[idx]\n            x = x[idx]\n            logl = logl[idx]\n            logw = logw[idx]\n            if blobs is not None:\n                blobs = blobs[idx]",
  "            idx = systematic_resample(len(weights), weights)\n            u = u[idx]\n            x = x[idx]\n            logl = logl[idx]\n            logw = logw[idx]\n            if blobs is not None:\n                blobs = blobs[: len(idx)]", ["C12", "C07"])
m("save-in-place", "tempest/core.py",
  "        temp_path = path.with_name(path.name + \".temp\")\n", "        temp_path = path\n", ["C08"])
m("save-no-fsync-rename-first", "tempest/core.py",
  "        with open(temp_path, \"wb\") as f:\n            dill.dump(d, f)\n            f.flush()\n            os.fsync(f.fileno())\n        os.replace(temp_path, path)",
  "        f = open(temp_path, \"wb\")\n        os.replace(temp_path, path)\n        dill.dump(d, f)\n        f.flush()\n        f.close()", ["C08"])
m("load-drops-history", "tempest/core.py",
  "        self.state.update_from_dict(d)\n", "        self.state.update_from_dict({k: v for k, v in d.items() if k != \"_history\"})\n", ["C08"])
m("resume-t0-zero", "tempest/core.py",
  "            t0 = int(iter_val) if iter_val is not None else 0\n", "            t0 = 0\n            self.state.set_current(\"iter\", 0)\n", ["C08"])
m("seed-constant-in-core", "tempest/core.py",
  "            np.random.seed(config.random_state)\n\n        # Initialize components", "            np.random.seed(0)\n\n        # Initialize components", ["C09"])
m("random-state-ignored", "tempest/core.py",
  "        if config.random_state is not None:\n            np.random.seed(config.random_state)\n\n        # Initialize components", "        # Initialize components", ["C09"])
m("pool-results-unordered", "tempest/core.py",
  "            results = list(self._get_distribute_func()(self.config.log_likelihood, x))", "            results = sorted(self._get_distribute_func()(self.config.log_likelihood, x), key=lambda r: float(r[0]) if isinstance(r, (tuple, list)) else float(r))", ["C13", "C07"])

# ---------------------------------------------------------------- cluster.py (C09, C15)
m("gmm-reseed-global", "tempest/cluster.py",
  "        if global_rng_state is not None:\n            np.random.set_state(global_rng_state)\n", "", ["C09", "C02"])
m("gmm-ignore-sample-weights", "tempest/cluster.py",
  "        weighted_resp = responsibilities * sample_weight[:, np.newaxis]", "        weighted_resp = responsibilities / len(sample_weight)", ["C15"])
m("gmm-cov-divide-n", "tempest/cluster.py",
  "                covariances[k] = np.dot(weighted_resp[:, k] * diff.T, diff)\n                covariances[k] /= np.sum(weighted_resp[:, k]) + 1e-10",
  "                covariances[k] = np.dot(weighted_resp[:, k] * diff.T, diff)\n                covariances[k] /= np.sum(weighted_resp[:, k]) * n_samples / 100.0 + 1e-10", ["C15"])
m("hier-min-points-one-child", "tempest/cluster.py",
  "                    if len(child1) >= min_points and len(child2) >= min_points:", "                    if len(child1) >= min_points:", ["C15"])
m("hier-cap-off-by-one", "tempest/cluster.py",
  "        while iteration < self.max_iterations:", "        while iteration <= self.max_iterations:", ["C15", "C14"])

# ---------------------------------------------------------------- student.py / modes.py (C19)
eq("student-absolute-regularisation", "tempest/student.py",
  "        Sigma = np.dot(w_iobs * diffs, diffs.T) / n", "        Sigma = np.dot(w_iobs * diffs, diffs.T) / n + 1e-6 * np.eye(dim)", ["C19"])
m("student-initial-absolute-reg", "tempest/student.py",
  "    Sigma = np.cov(data) * (n - 1) / n + (1 / n) * np.diag(np.var(data, axis=1))", "    Sigma = np.cov(data) * (n - 1) / n + 1e-3 * np.eye(dim)", ["C19"])
m("modes-dof-fallback-removed", "tempest/modes.py",
  "            if ~np.isfinite(dof):\n                dof = dof_fallback\n\n            means.append(mean)", "            means.append(mean)", ["C19", "C14"])

# ---------------------------------------------------------------- config.py (C18)
m("config-no-ess-ratio-check", "tempest/config.py",
  "        if self.ess_ratio <= 0:\n            errors.append(f\"ess_ratio must be positive, got {self.ess_ratio}\")", "        pass", ["C18"])
m("config-no-overlap-check", "tempest/config.py",
  "            if overlap:\n                errors.append(", "            if False:\n                errors.append(", ["C18"])
m("config-no-sampler-check", "tempest/config.py",
  "        if self.sample not in [\"tpcn\", \"rwm\"]:", "        if False:", ["C18"])

# ---------------------------------------------------------------- second batch
m("volume-absolute-regularisation", "tempest/tools.py",
  "    cov = np.dot(xc.T, xc * w[:, np.newaxis])\n", "    cov = np.dot(xc.T, xc * w[:, np.newaxis]) + 1e-6 * np.eye(n_dim)\n", ["C20"])
m("compute-ess-no-shift", "tempest/tools.py",
  "    logw_normed = logw - logw_max\n\n    weights = np.exp(logw_normed) / np.sum(np.exp(logw_normed))", "    logw_normed = logw\n\n    weights = np.exp(logw_normed) / np.sum(np.exp(logw_normed))", ["C20"])
m("student-rounded-start", "tempest/student.py",
  "    mu = np.array([np.median(data, 1)]).T", "    mu = np.array([np.round(np.median(data, 1), 2)]).T", ["C19"])
m("warmup-inf-rows-kept", "tempest/steps/mutate.py",
  "                if len(finite_idx) > 0:", "                if len(finite_idx) > len(x):", ["C11", "C07"])
m("posterior-resample-keeps-weights", "tempest/core.py",
  "            weights = np.ones(len(idx)) / len(idx)\n", "            weights = weights[idx] / np.sum(weights[idx])\n", ["C12"])
m("mis-beta-final-ignored-in-logz", "tempest/state_manager.py",
  "        A = logl_all * beta_final", "        A = logl_all * (beta_final if normalize else 1.0)", ["C04"])
m("trainer-reseeds-42", "tempest/steps/train.py",
  "        iter_val = self.state.get_current(\"iter\")\n", "        iter_val = self.state.get_current(\"iter\")\n        np.random.seed(42 + int(iter_val))\n", ["C09", "C02"])
m("hier-predict-proba-unnormalised", "tempest/cluster.py",
  "        return np.exp(log_probabilities - log_prob_norm)", "        return np.exp(log_probabilities - log_prob_norm) * 0.5", ["C15"])
m("periodic-mod-sign", "tempest/mcmc.py",
  "            u[..., idx] = u[..., idx] % 1.0", "            u[..., idx] = np.fmod(u[..., idx], 1.0)", ["C16"])
m("rwm-asymmetric-drift", "tempest/mcmc.py",
  "        proposal = self.u[k] + sigma * chol_cov @ np.random.randn(self.n_dim)", "        proposal = self.u[k] + sigma * chol_cov @ (np.random.randn(self.n_dim) + 0.05)", ["C03"])
m("tpcn-accept-ge", "tempest/mcmc.py",
  "            mask_accept = u_rand < alpha", "            mask_accept = u_rand < alpha * 1.05", ["C03"])
eq("resume-skips-random-state", "tempest/core.py",
  "        if \"random_state\" in d and d[\"random_state\"] is not None:\n            np.random.seed(d[\"random_state\"])", "        if False:\n            pass", [ "C09"])
eq("save-every-off-by-one-iter", "tempest/core.py",
  "            if (iter_val - t0) % int(save_every) == 0 and iter_val != t0:", "            if (iter_val - t0) % int(save_every) == 0 and iter_val != t0 and iter_val > 2:", ["C08"])
m("state-update-from-dict-drops-current", "tempest/state_manager.py",
  "        if \"_current\" in state_dict:\n            self._current.update(state_dict[\"_current\"])\n        if \"_history\" in state_dict:\n            self._history.update(state_dict[\"_history\"])\n        if \"n_dim\" in state_dict:",
  "        if \"_history\" in state_dict:\n            self._history.update(state_dict[\"_history\"])\n        if \"n_dim\" in state_dict:", ["C08", "C17"])
